"""C22 Transfers reproduce the source data exactly.

Clauses decided (necessary conditions; byte equality of the copied trees needs execution and is undecided):

R1 shell operands quoted (P9).  Every run-time value that reaches a command handed to `connector.run`,
   `get_stream_reader/_writer` or to the `reader_command/writer_command` of the tar helpers -- in
   `get_local_to_remote_destination`, `get_remote_to_remote_write_command` (its `run` commands *and* the
   writer command it returns) and every function of deployment/connector/base.py (`copy_same_connector`,
   module-level `copy_*`, `BaseConnector.copy_*`) -- is shlex-quoted, numeric or a declared payload
   (a `command`/`reader_command`/`writer_command` parameter, checked at the caller).  Literal double quotes
   (`f'test -d "{dst}"'`) are not a sanitiser.
R2 dispatch and read-only agreement (P11) in `data.manager._copy`: the three branches are guarded by
   (source local) / (not source local, destination local) / (neither); every path performs exactly one of the
   three copies; each passes `src`, `dst`, the right locations and connectors, and `read_only=not writable`.
R3 availability typestate (P3).  In DefaultDataManager every `DataLocation` created unavailable and published
   with `path_mapper.put` is collected (created inside the list display / `append` call, or held in a local that is
   put into the list by `C = [h]`, `C.append(h)`, `C += [h]`, `C.extend([h])`; registered as the local, an alias or an
   element of the collection; the collection is not bound anew or emptied before the final loop, which visits every
   element) and reaches `available.set()` on every normal path to return; in
   `transfer_data` the DataLocation registered (`path_mapper.put`) for a destination while its copy is still to be
   awaited is created NOT available -- decided on the effective `available` argument: the explicit value (through
   temporaries, positional or keyword) or, when omitted, the resolved signature default of `DataLocation.__init__`
   (the call relies on it; a flipped default advertises every in-flight destination as a complete copy) --,
   every `_copy` task is awaited (gather) before the first `available.set()`, a copy that
   reads from a registered location waits for that location to be available first, every destination is
   served by exactly one copy task (same-location copy XOR the shared remote copy), and a read-only copy is
   registered SYMBOLIC_LINK exactly when `is_symlink()` says so.
R4 read_only travels unchanged: wherever a function with a `read_only` parameter calls a copy operation that
   accepts `read_only`, it passes its own `read_only` or the constant False (a full copy is always correct;
   `True`/negation/another value is not); the `ln -s`/`cp -r` idiom and `_local_copy` choose the link exactly
   when `read_only` is true, with operands in (src, dst) order, and copy files with a mode-preserving call.
R5 copies materialise symbolic links (dereference policy).  Only the read-only `ln -s`/`os.symlink` may leave a
   link at the destination; every *copy* primitive of the transfer code (enumerated over streamflow.deployment,
   streamflow.data and core.utils) must follow links, otherwise a link inside the tree (or the source path itself,
   which is a link after a read-only transfer) is re-created verbatim: it dangles at the new depth / on the other
   host, or aliases the source of a writable copy.  Decided on the effective argument (explicit value, else the
   library default): `shutil.copytree(symlinks=)` is False, `shutil.copy/copy2/copyfile(follow_symlinks=)` is
   True, a tar *create* command (`tar c..`) carries `h`/`--dereference`, `aiotarstream.open(mode='w')` passes
   `dereference=True` (the class default is False).  `/bin/cp -rf` of copy_same_connector does NOT dereference
   (GNU/busybox `-r` implies `-P`): reported as an observation, not armed (see report).
R6 side agreement (P11).  The transfer helpers name the two sides of a copy in their signatures (`src_connector` /
   `source_connector`, `src_location` / `source_location`, `src` versus `dst_connector`, `dst_location(s)`, `dst`; in a
   helper that receives the source connector separately the unprefixed `connector` / `location(s)` are the
   destination's).  Every connector operation (`run`, `get_stream_reader`, `get_stream_writer`) and every resolved helper
   call in get_local_to_remote_destination, get_remote_to_remote_write_command and connector/base.py addresses ONE side:
   the connector, the location (parameter, element of it, loop variable over it, temporary), the path operands of the
   command (when all of them belong to one side) and the stream direction (reader = source, writer = destination)
   agree -- `test -d <src>` answered by the destination host picks the wrong tar writer and a directory arrives as
   one file.  Values forwarded under a side-named keyword (`src_connector=`, `dst_locations=`, ...) keep their side.
   Commands that legitimately name both paths (`cp src dst` on one location) and log/format calls are not constrained.
R7 destination fan-out (every destination is prepared and written).  A transfer helper that receives the destinations as
   a collection (`dst_locations` / `locations`) must act on EVERY element of it: each operation that changes a destination
   host -- `connector.run` of a command that is not a read-only probe (`mkdir -p dst`, `ln`/`cp`; `test -d` and the like,
   or a command of unknown first word whose output is captured, are probes and may ask one representative location),
   `get_stream_writer`, and every resolved helper that (transitively, small inlining bound) performs such an operation on
   the location / collection it is handed -- takes its location from an iteration over the COMPLETE collection (statement
   loop, comprehension, `enumerate` / `zip` / `range(len(..))` indexing, aliases, `list(..)`/`sorted(..)`/`[:]` copies,
   filtered comprehensions) or forwards the complete collection; a fixed element (`dst_locations[0]`,
   `next(iter(..))`, `.pop()`), a proper slice (`[:1]`) or a loop that is unconditionally left after its first iteration
   serves one destination only: the tar writers of the remaining locations find no target directory / no data arrives
   there.  Enumerated over core/utils.py and deployment/connector/base.py; a helper (of any module) that receives the
   collection and acts on it is followed through the resolved call and checked with the parameter as the collection.

Left out: equality of contents/structure/executable bits at the destination (needs execution); the tar flag
`p` (not necessary: the x bit survives any usual umask); connector-specific copy paths of docker/ssh/kubernetes/queue managers (outside the property's
anchors) except for the read_only forwarding of R4, which is enumerated program-wide.
"""

from __future__ import annotations

import ast
import re

from ..cfg import ALL, NORMAL
from ..dataflow import fragments
from ..model import unparse
from ..selftest import V
from ._util_E import coexec, const_of, deref, effective_arg, guard_atoms, ids_at, ktext, loop_binding, loops_of, must_follow, only_via, signature_default, split_atoms

UTILS = "streamflow.core.utils"
BASE = "streamflow.deployment.connector.base"
BASEFILE = "streamflow/deployment/connector/base.py"
UTILSFILE = "streamflow/core/utils.py"
MGRFILE = "streamflow/data/manager.py"
LOCALFILE = "streamflow/deployment/connector/local.py"
MGRMOD = "streamflow.data.manager"
MGR = f"{MGRMOD}.DefaultDataManager"
MAPPER = f"{MGRMOD}._RemotePathMapper"
DLOC = "streamflow.core.data.DataLocation"
LOCAL = "streamflow.deployment.connector.local"

META = {
    "explanation": (
        "P9 quoting analysis over the commands built by the transfer helpers (run commands, tar reader/writer commands, the "
        "writer command returned by get_remote_to_remote_write_command); feature comparison of the three branches of "
        "data.manager._copy; must-pass-through of available.set() for every DataLocation published unavailable, gather before "
        "set, wait before reading a registered source; program-wide forwarding table of read_only and polarity of the "
        "link/copy idioms; effective dereference argument/flag of every copy primitive (shutil, tar create commands, "
        "aiotarstream writers); effective `available` argument (explicit or resolved constructor default) of the DataLocation "
        "registered before its copy is awaited; agreement of connector / location / path-operand / stream-direction sides at every "
        "connector operation of the transfer helpers; coverage of the destination collection by every destination-changing "
        "operation (mkdir/ln/cp runs, stream writers, helpers that perform them): location drawn from an iteration over the complete "
        "collection, not from a fixed element or proper slice. Necessary structural conditions only."
    ),
    "undecided": "byte equality of regular-file contents, directory structure and executable bits at the destination (needs execution)",
    "assumptions": [
        "connector.run joins list commands with spaces and hands them to a POSIX shell; BaseConnector.get_stream_reader/_writer re-split with shlex.split",
        "copy operations of connectors loaded through plugins are not analysed",
        "failure = exception edges are excluded from R3 (reported as an observation, DESIGN section 7)",
    ],
}

COMMAND_KW = ("command", "reader_command", "writer_command")
SINK_CALLEES = {"run", "get_stream_reader", "get_stream_writer", "copy_local_to_remote", "copy_remote_to_local", "copy_remote_to_remote"}
COPY_OPS = ("copy_local_to_remote", "copy_remote_to_local", "copy_remote_to_remote", "copy_same_connector", "_local_copy")


# --------------------------------------------------------------------------- R1


def _r1_funcs(prog):
    fs = [prog.func(f"{UTILS}.get_local_to_remote_destination"), prog.func(f"{UTILS}.get_remote_to_remote_write_command")]
    m = prog.module(BASE)
    fs += [f for f in prog.all_funcs() if f.module is m]
    for need in ("copy_same_connector", "copy_remote_to_remote", "copy_local_to_remote", "copy_remote_to_local"):
        prog.func(f"{BASE}.{need}")
        if need != "copy_same_connector":
            prog.func(f"{BASE}.BaseConnector.{need}")
    return fs


def _callee_name(c: ast.Call):
    fn = c.func
    return fn.attr if isinstance(fn, ast.Attribute) else (fn.id if isinstance(fn, ast.Name) else None)


def r1(ctx):
    prog = ctx.prog
    writer = f"{UTILS}.get_remote_to_remote_write_command"
    n_sinks = 0
    for f in _r1_funcs(prog):
        sinks = []
        for c in f.calls():
            if _callee_name(c) in SINK_CALLEES:
                for k in c.keywords:
                    if k.arg in COMMAND_KW:
                        sinks.append((c, k.value, f"{_callee_name(c)}({k.arg}=...)"))
        if f.qualname == writer:
            for r in [n for n in f.body_nodes() if isinstance(n, ast.Return) and n.value is not None]:
                sinks.append((r, r.value, "returned writer command"))
        for at, expr, what in sinks:
            n_sinks += 1
            frs = fragments(prog, f, expr)
            bad = []
            for fr in frs:
                if fr.kind != "dyn":
                    continue
                if fr.text in COMMAND_KW and fr.text in f.params:
                    continue  # payload parameter: checked where the caller builds it
                e = fr.expr
                if isinstance(e, ast.Await):
                    e = e.value
                if isinstance(e, ast.Call) and writer in prog.resolve_call(f, e):
                    continue  # checked at the returns of get_remote_to_remote_write_command
                bad.append(fr)
            quoted = [fr for fr in frs if fr.kind == "quoted"]
            if not bad:
                ctx.ob("R1", f"{f.name}: {what}: no unquoted run-time operand ({len(quoted)} quoted)", True, func=f, node=at,
                       instance=f"{what}|ok|{' '.join(unparse(expr).split())[:60]}", trivial=not quoted)
            seen = set()
            words = []
            for fr in frs:
                if fr.kind == "const":
                    try:
                        v = ast.literal_eval(fr.text)
                    except Exception:  # pragma: no cover
                        v = ""
                    if isinstance(v, str):
                        words += v.replace('"', " ").split()
            sig = " ".join(words)[:60]
            for fr in bad:
                if fr.text in seen:
                    continue
                seen.add(fr.text)
                ctx.ob("R1", f"{f.name}: {what}: run-time value {fr.text} spliced into a shell command", False, func=f, node=at,
                       instance=f"command|{sig}|{fr.text}",
                       message=f"run-time value `{fr.text}` reaches the shell command `{' '.join(unparse(expr).split())[:90]}` without shlex.quote (names with spaces, quotes, `$` are split or interpreted)",
                       witness=[f"{what}: {' '.join(unparse(expr).split())[:300]}", f"fragments: {frs}"[:600]])
    ctx.require(n_sinks >= 8, f"C22.R1: only {n_sinks} command sinks found in the transfer helpers")


# --------------------------------------------------------------------------- R2


def _kw(c: ast.Call, name: str, pos: int | None = None):
    for k in c.keywords:
        if k.arg == name:
            return k.value
    if pos is not None and len(c.args) > pos:
        return c.args[pos]
    return None


def r2(ctx):
    prog = ctx.prog
    f = prog.func(f"{MGRMOD}._copy")
    need = {"src_connector", "src_location", "src", "dst_connector", "dst_locations", "dst", "writable"}
    ctx.require(need <= set(f.params), f"C22.R2: _copy signature changed: {f.params}")
    g = f.cfg
    table = {
        # op: (receiver, {kw: expected text}, guard (src local?, dst local?))
        "copy_local_to_remote": ("dst_connector", {"src": "src", "dst": "dst", "locations": "dst_locations"}, (True, None)),
        "copy_remote_to_local": ("src_connector", {"src": "src", "dst": "dst", "location": "src_location"}, (False, True)),
        "copy_remote_to_remote": ("dst_connector", {"src": "src", "dst": "dst", "locations": "dst_locations", "source_location": "src_location", "source_connector": "src_connector"}, (False, False)),
    }
    calls = {op: [c for c in f.calls() if _callee_name(c) == op and isinstance(c.func, ast.Attribute)] for op in table}
    all_ids = []
    for op, (recv, kws, guard) in table.items():
        cs = calls[op]
        ctx.ob("R2", f"_copy dispatches to {op}", len(cs) >= 1, func=f, node=f.node, instance=f"_copy:{op}:present",
               message=f"_copy no longer calls {op}: one of (local->remote, remote->local, remote->remote) is not covered")
        for c in cs:
            cid = ids_at(f, c)
            all_ids += cid
            ro = _kw(c, "read_only")
            ro_d = deref(f, ro) if ro is not None else None
            ok_ro = isinstance(ro_d, ast.UnaryOp) and isinstance(ro_d.op, ast.Not) and isinstance(deref(f, ro_d.operand), ast.Name) and deref(f, ro_d.operand).id == "writable"
            ctx.ob("R2", f"_copy -> {op}: read_only = not writable", ok_ro, func=f, node=c, instance=f"_copy:{op}:read_only",
                   message=f"{op} is called with read_only={unparse(ro) if ro is not None else '<default False>'}; its siblings pass `not writable`: writable and read-only transfers are mixed up on this branch")
            wrong = []
            if ktext(f, c.func.value) != recv:
                wrong.append(f"receiver {unparse(c.func.value)} (expected {recv})")
            for k, want in kws.items():
                v = _kw(c, k)
                if v is None or ktext(f, v) != want:
                    wrong.append(f"{k}={unparse(v) if v is not None else '<missing>'} (expected {want})")
            ctx.ob("R2", f"_copy -> {op}: source, destination, locations and connectors are forwarded", not wrong, func=f, node=c, instance=f"_copy:{op}:args",
                   message=f"{op}: " + "; ".join(wrong))
            # guards
            facts = {}
            other = []
            for nid in cid:
                for e, truth, _t in guard_atoms(g, nid):
                    d = deref(f, e) if isinstance(e, ast.Name) else e
                    t = ktext(f, d) if isinstance(d, (ast.Attribute, ast.Name)) else unparse(d)
                    if t == "src_location.local":
                        facts["src"] = truth
                    elif isinstance(d, ast.Attribute) and d.attr == "local" and "dst_locations" in unparse(d.value):
                        facts["dst"] = truth
                    else:
                        other.append(unparse(e))
            ok_g = facts.get("src") == guard[0] and (guard[1] is None or facts.get("dst") == guard[1])
            ctx.require(ok_g or not other, f"C22.R2: cannot interpret the dispatch condition(s) {other} guarding {op} in _copy")
            ctx.ob("R2", f"_copy -> {op}: taken exactly for (source local, destination local) = {guard}", ok_g, func=f, node=c, instance=f"_copy:{op}:guard",
                   message=f"{op} is reached under {facts}, expected source-local={guard[0]}, destination-local={guard[1]}")
    w = g.escape(g.entry, all_ids, kinds=NORMAL) if all_ids else [g.entry]
    ctx.ob("R2", "_copy performs a copy on every path", w is None, func=f, node=f.node, instance="_copy:coverage",
           message="some combination of local/remote source and destination falls through _copy without any copy", witness=g.describe(w) if w else [])


# --------------------------------------------------------------------------- R3


def _is_dataloc_ctor(prog, f, c: ast.Call) -> bool:
    return DLOC in prog.resolve_call(f, c, fanout=False)


def _unavailable(prog, f, c: ast.Call):
    """-> (created unavailable? (None = not decidable), how) of a DataLocation constructor call; `how` is
    'explicit' (written at the call) or 'default' (omitted: the resolved signature default of
    DataLocation.__init__ decides -- the call relies on it)."""
    init = prog.func(f"{DLOC}.__init__")
    val, how = effective_arg(init, c, "available")
    if how not in ("explicit", "default"):
        return None, how
    known, v = const_of(f if how == "explicit" else None, val)
    if known and isinstance(v, bool):
        return (not v), how
    return None, how


def _copy_pending_ids(prog, f) -> list[int]:
    """CFG nodes of f at which a `_copy` of the data manager is started or awaited (the call itself, and the
    gather/wait over the task list it is collected in): whatever can still reach one of them runs before the
    copy has completed."""
    g = f.cfg
    out: list[int] = []
    for c in f.calls():
        if f"{MGRMOD}._copy" not in prog.resolve_call(f, c):
            continue
        out += ids_at(f, c)
        node, hops = c, 0
        while node is not None and hops < 4 and not (isinstance(node, ast.Call) and isinstance(node.func, ast.Attribute) and node.func.attr in ("append", "add")):
            node = getattr(node, "_parent", None)
            hops += 1
        if isinstance(node, ast.Call) and isinstance(node.func, ast.Attribute) and isinstance(node.func.value, ast.Name):
            lst = node.func.value.id
            for n_ in g.nodes.values():
                for a in n_.walk():
                    if isinstance(a, ast.Await) and isinstance(a.value, ast.Call) and unparse(a.value.func) in ("asyncio.gather", "asyncio.wait", "gather") and any(
                        isinstance(x, ast.Name) and x.id == lst for arg in a.value.args for x in ast.walk(arg)
                    ):
                        out.append(n_.id)
    return out


_DISPLAYS = (ast.List, ast.Tuple, ast.Set)


def _display_of(f, e: ast.AST):
    """The list/tuple/set display an expression denotes (through a temporary or `list(<display>)`), else None."""
    d = deref(f, e) if isinstance(e, ast.Name) else e
    if isinstance(d, ast.Call) and isinstance(d.func, ast.Name) and d.func.id in ("list", "tuple", "set") and len(d.args) == 1 and not d.keywords:
        d = deref(f, d.args[0]) if isinstance(d.args[0], ast.Name) else d.args[0]
    return d if isinstance(d, _DISPLAYS) else None


def _collections_of(f, holder: str):
    """[(collection name, statement/call that puts `holder` into it)] for a local holding one object: `C.append(h)` /
    `C.add(h)` / `C.insert(i, h)`, `C.extend([.., h, ..])`, `C += [.., h, ..]`, `C = [.., h, ..]` (a display, also
    `list(<display>)`; aliases of the holder are followed)."""

    def is_h(x) -> bool:
        return isinstance(x, ast.Name) and ktext(f, x) == holder

    def has_h(e) -> bool:
        d = _display_of(f, e)
        return d is not None and any(is_h(x) for x in d.elts)

    out = []
    for n in f.body_nodes():
        if isinstance(n, ast.Call) and isinstance(n.func, ast.Attribute) and isinstance(n.func.value, ast.Name) and not n.keywords:
            a = n.func.attr
            if (a in ("append", "add") and len(n.args) == 1 and is_h(n.args[0])) or (a == "insert" and len(n.args) == 2 and is_h(n.args[1])) or (
                    a in ("extend", "update") and len(n.args) == 1 and has_h(n.args[0])):
                out.append((n.func.value.id, n))
        elif isinstance(n, ast.Assign) and len(n.targets) == 1 and isinstance(n.targets[0], ast.Name) and isinstance(n.value, (ast.Call,) + _DISPLAYS) and has_h(n.value):
            out.append((n.targets[0].id, n))
        elif isinstance(n, ast.AnnAssign) and isinstance(n.target, ast.Name) and n.value is not None and isinstance(n.value, (ast.Call,) + _DISPLAYS) and has_h(n.value):
            out.append((n.target.id, n))
        elif isinstance(n, ast.AugAssign) and isinstance(n.op, ast.Add) and isinstance(n.target, ast.Name) and has_h(n.value):
            out.append((n.target.id, n))
    return out


def _iterates(f, e: ast.AST, coll: str, depth: int = 4) -> bool:
    """Does a loop over `e` visit every element of the collection `coll`: the name itself, an alias, or an
    order/copy wrapper of it (`list(C)`, `tuple(C)`, `reversed(C)`, `sorted(C)`, `iter(C)`, `C.copy()`, `C[:]`)."""
    while depth > 0:
        depth -= 1
        if isinstance(e, ast.Name):
            if e.id == coll:
                return True
            d = deref(f, e)
            if d is e or not isinstance(d, ast.Name):
                return False  # a copy taken earlier (`snap = list(C)`) misses what is collected afterwards
            e = d
        elif isinstance(e, ast.Call) and isinstance(e.func, ast.Name) and e.func.id in ("list", "tuple", "reversed", "sorted", "iter") and len(e.args) == 1 and not e.keywords:
            e = e.args[0]
        elif isinstance(e, ast.Call) and isinstance(e.func, ast.Attribute) and e.func.attr == "copy" and not e.args:
            e = e.func.value
        elif isinstance(e, ast.Subscript) and isinstance(e.slice, ast.Slice) and e.slice.lower is None and e.slice.upper is None and e.slice.step is None:
            e = e.value
        else:
            return False
    return False


def _rebinds(f, coll: str, keep) -> list[ast.AST]:
    """Statements that bind the collection name `coll` anew or empty it (plain / annotated assignment, `del`,
    `.clear()`), other than the statements `keep` that collect into it."""
    def keeps(v) -> bool:
        # `C = list(C)` / `C = C.copy()` / `C = C[:]` / `C = C + [...]` / `C = [*C, ...]` keep every collected element
        if isinstance(v, ast.Call):
            inner = v.args[0] if isinstance(v.func, ast.Name) and v.func.id in ("list", "tuple", "sorted", "set", "frozenset") and len(v.args) == 1 else (
                v.func.value if isinstance(v.func, ast.Attribute) and v.func.attr == "copy" and not v.args else None)
            return inner is not None and keeps(inner)
        if isinstance(v, ast.Subscript) and isinstance(v.slice, ast.Slice) and v.slice.lower is None and v.slice.upper is None and v.slice.step is None:
            return keeps(v.value)
        if isinstance(v, ast.BinOp) and isinstance(v.op, ast.Add):
            return keeps(v.left) or keeps(v.right)
        if isinstance(v, _DISPLAYS):
            return any(isinstance(x, ast.Starred) and keeps(x.value) for x in v.elts)
        return isinstance(v, ast.Name) and v.id == coll

    out = []
    for n in f.body_nodes():
        if any(n is k for k in keep):
            continue
        if isinstance(n, (ast.Assign, ast.AnnAssign)) and n.value is not None and keeps(n.value):
            continue
        if isinstance(n, ast.Assign) and any(isinstance(t, ast.Name) and t.id == coll for tt in n.targets for t in ast.walk(tt) if isinstance(t, ast.Name) and isinstance(t.ctx, ast.Store)):
            out.append(n)
        elif isinstance(n, ast.AnnAssign) and n.value is not None and isinstance(n.target, ast.Name) and n.target.id == coll:
            out.append(n)
        elif isinstance(n, ast.Delete) and any(isinstance(t, ast.Name) and t.id == coll for t in n.targets):
            out.append(n)
        elif isinstance(n, ast.Call) and isinstance(n.func, ast.Attribute) and n.func.attr == "clear" and isinstance(n.func.value, ast.Name) and n.func.value.id == coll:
            out.append(n)
    return out


def r3(ctx):
    prog = ctx.prog
    cls = prog.cls(MGR)
    n = 0
    for f in cls.methods.values():
        ctors = [c for c in f.calls() if _is_dataloc_ctor(prog, f, c)]
        if not ctors:
            continue
        g = f.cfg
        loops = [lp for lp in loops_of(f) if not lp.is_comp]
        puts = [c for c in f.calls() if f"{MAPPER}.put" in prog.resolve_call(f, c)]
        pending = _copy_pending_ids(prog, f)
        for c in ctors:
            un, how = _unavailable(prog, f, c)
            ctx.require(un is not None, f"C22.R3: {f.qualname}: cannot decide the `available` argument of `{unparse(c)[:60]}`")
            # an available location created where no copy of this function can follow any more (the data it
            # denotes is in place) owes nothing
            if not un and not (pending and any(g.path(x, pending, kinds=NORMAL) is not None for x in ids_at(f, c))):
                continue
            # holder: X = DataLocation(...) | C = [DataLocation(...)] | C.append(DataLocation(...))
            par = getattr(c, "_parent", None)
            holder = coll = None
            coll_ids = []
            if isinstance(par, ast.Assign) and par.value is c and len(par.targets) == 1 and isinstance(par.targets[0], ast.Name):
                holder = par.targets[0].id
            elif isinstance(par, ast.List) and isinstance(getattr(par, "_parent", None), ast.Assign) and isinstance(par._parent.targets[0], ast.Name):
                coll = par._parent.targets[0].id
                coll_ids = ids_at(f, par._parent)
            elif isinstance(par, ast.Call) and isinstance(par.func, ast.Attribute) and par.func.attr == "append" and isinstance(par.func.value, ast.Name) and c in par.args:
                coll = par.func.value.id
                coll_ids = ids_at(f, par)
            ctx.require(holder is not None or coll is not None, f"C22.R3: {f.qualname}: cannot follow the DataLocation created by `{unparse(c)[:60]}`")
            coll_stmts = [par._parent if isinstance(par, ast.List) else par] if holder is None else []
            if holder is not None:
                # the collection a directly held location is put into: C.append(h) | C = [h] | C += [h] | C.extend([h]) ...
                sites = _collections_of(f, holder)
                coll = sites[0][0] if sites else None
                coll_stmts = [s_ for cn, s_ in sites if cn == coll]
                coll_ids = [i for s_ in coll_stmts for i in ids_at(f, s_)]
            # publication: the registry receives the holder (or an alias of it) or an element of the collection
            pubs = []
            for p in puts:
                a = _kw(p, "data_location", 1)
                if a is None:
                    continue
                d = deref(f, a) if isinstance(a, ast.Name) else a
                if holder is not None and isinstance(a, ast.Name) and ktext(f, a) == holder:
                    pubs.append(p)
                elif coll is not None and isinstance(d, ast.Subscript) and isinstance(d.value, ast.Name) and d.value.id == coll:
                    # an element of the collection; for a directly held location only once it has been collected
                    # (`C[0]` registered before `C.append(h)` is another location)
                    if holder is None or all(any(g.dominates(ci, pi) for ci in coll_ids) for pi in ids_at(f, p)):
                        pubs.append(p)
            if not pubs:
                continue  # never handed to the registry from here: nothing to owe
            ptxt = ktext(f, _kw(c, "path", 1)) if _kw(c, "path", 1) is not None else "?"
            # born unavailable: a location registered while a copy of this function is still to run / running is the
            # *destination* of that copy; it must not be advertised as available before the copy is awaited
            early = [p for p in pubs if pending and any(g.path(x, pending, kinds=NORMAL) is not None for x in ids_at(f, p))]
            if early:
                init = prog.func(f"{DLOC}.__init__")
                _d = signature_default(init, "available")[1]
                via = (f"through the signature default `available={unparse(_d) if _d is not None else '?'}` of DataLocation.__init__ ({init.file}:{init.lineno}) on which this call relies"
                       if how == "default" else f"explicitly (`available={unparse(_kw(c, 'available', 4))}`)")
                ctx.ob("R3", f"{f.name}: DataLocation(path={ptxt}) registered before its copy is awaited is created not-available ({how})", bool(un), func=f, node=c,
                       instance=f"{f.name}:born-unavailable:{holder or coll}:{ptxt}",
                       message=f"{f.name}: `{holder or coll}` = DataLocation(path={ptxt}) is handed to path_mapper.put while the copy that fills it is still to be awaited, but it is created "
                               f"AVAILABLE {via}: the in-flight destination is advertised as a complete copy -- `available.wait()` of a concurrent transfer / get_source_location "
                               "returns at once and the half-written (or still missing) path is used as a source",
                       witness=[f"constructor: {' '.join(unparse(c).split())[:200]}", f"DataLocation.__init__ signature: {unparse(init.node.args)}"])
            if not un:
                continue
            n += 1
            # the loop that sets every collected location
            set_loops = []
            for lp in loops:
                if coll is not None and _iterates(f, lp.iter, coll) and isinstance(lp.target, ast.Name):
                    v = lp.target.id
                    sets = [x for x in f.calls() if isinstance(x.func, ast.Attribute) and x.func.attr == "set" and ktext(f, x.func.value) == f"{v}.available"
                            and loop_binding(f, v, x, loops) is not None and loop_binding(f, v, x, loops)[0] is lp]
                    if sets:
                        set_loops.append((lp, sets))
            # a directly held location may also be set directly
            direct = [x for x in f.calls() if holder is not None and isinstance(x.func, ast.Attribute) and x.func.attr == "set" and ktext(f, x.func.value) == f"{holder}.available"]
            where = f"{f.name}: DataLocation(path={ptxt}) held in `{holder or coll}`, created unavailable"
            inst = f"{f.name}:available:{holder or coll}:{ktext(f, _kw(c, 'path', 1)) if _kw(c, 'path', 1) is not None else ''}"
            ok, why, wit = True, "", []
            pub_ids = [i for p in pubs for i in ids_at(f, p)]
            if direct:
                tgt = [i for x in direct for i in ids_at(f, x)]
                w = next((w for p in pub_ids if (w := g.escape(p, tgt, kinds=NORMAL)) is not None), None)
                if w is not None:
                    ok, why, wit = False, "a normal path from the registration to return avoids `available.set()`", g.describe(w)
            elif coll is None:
                ok, why = False, f"`{holder}` is registered but neither set available nor collected for a final loop `for x in <collection>: x.available.set()`"
            elif not set_loops:
                ok, why = False, f"no loop `for x in {coll}: x.available.set()` found"
            else:
                lp, sets = set_loops[0]
                lids = ids_at(f, lp.node)
                sids = [i for x in sets for i in ids_at(f, x)]
                w = next((w for p in pub_ids if (w := g.escape(p, lids, kinds=NORMAL)) is not None), None)
                if w is not None:
                    ok, why, wit = False, f"a normal path from the registration to return avoids the loop over `{coll}`", g.describe(w)
                else:
                    first = [b for i in lids for b, k in g.succ[i] if k == "t"]
                    w2 = next((w for b in first if b not in sids and (w := g.path(b, lids + [g.exit], avoid=sids, kinds=NORMAL)) is not None), None)
                    if w2 is not None:
                        ok, why, wit = False, "an iteration of the final loop can end without `available.set()`", g.describe(w2)
                    elif holder is not None and not all(
                        g.path(p, lids, avoid=coll_ids, kinds=NORMAL) is None or any(g.dominates(ci, p) for ci in coll_ids) for p in pub_ids
                    ):
                        ok, why = False, f"`{holder}` is registered but not always appended to `{coll}`"
                    else:
                        # the collection is not bound anew / emptied between the collection and the loop
                        for r_ in (i for st in _rebinds(f, coll, coll_stmts) for i in ids_at(f, st)):
                            w3 = next((a + b[1:] for ci in coll_ids if (a := g.path(ci, [r_], kinds=NORMAL)) is not None and (b := g.path(r_, lids, kinds=NORMAL)) is not None), None)
                            if w3 is not None:
                                ok, why, wit = False, f"`{coll}` is bound anew / emptied after the location was collected and before the loop over it", g.describe(w3)
                                break
            ctx.ob("R3", f"{where} and registered reaches available.set() on every normal path", ok, func=f, node=c, instance=inst,
                   message=f"{f.name}: {why}: the location stays registered but never becomes available -- every later transfer that picks it as a source waits forever",
                   witness=wit)
            # exception edges: observation only (no property states availability under failed transfers)
            if ok and not direct and set_loops:
                lids = ids_at(f, set_loops[0][0].node)
                w = next((w for p in pub_ids if (w := g.escape(p, lids, kinds=ALL, exc_from=lambda nd: nd.has_await() or nd.kind == "raise_stmt")) is not None), None)
                if w is not None:
                    ctx.observe(f"C22.R3 {f.name}: if an awaited operation after the registration of `{holder or coll}` fails, the location stays registered and never becomes available "
                                f"(not armed: no property states availability under failed transfers); e.g. via {g.describe(w)[-3:]}")
    ctx.require(n >= 2, f"C22.R3: only {n} unavailable-and-registered DataLocation sites found (register_path, transfer_data expected)")

    # transfer_data: copies are awaited before availability, registered sources are awaited before copying
    f = prog.func(f"{MGR}.transfer_data")
    g = f.cfg
    loops = [lp for lp in loops_of(f) if not lp.is_comp]
    copies = [c for c in f.calls() if f"{MGRMOD}._copy" in prog.resolve_call(f, c)]
    ctx.require(len(copies) >= 1, "C22.R3: transfer_data no longer calls _copy")
    set_ids = [i for x in f.calls() if isinstance(x.func, ast.Attribute) and x.func.attr == "set" and isinstance(x.func.value, ast.Attribute) and x.func.value.attr == "available"
               for i in ids_at(f, x)]
    ctx.require(bool(set_ids), "C22.R3: transfer_data never sets `available`")
    for i, c in enumerate(copies):
        par = getattr(c, "_parent", None)
        awaited_here = isinstance(par, ast.Await)
        ok = awaited_here
        lst = None
        if not awaited_here:
            # create_task(_copy(...)) appended to a list that is gathered
            node, hops = c, 0
            while hops < 4 and not (isinstance(node, ast.Call) and isinstance(node.func, ast.Attribute) and node.func.attr == "append"):
                node = getattr(node, "_parent", None)
                hops += 1
                if node is None:
                    break
            if node is not None and isinstance(node, ast.Call) and isinstance(node.func.value, ast.Name):
                lst = node.func.value.id
                gathers = [n_.id for n_ in g.nodes.values() if any(
                    isinstance(a, ast.Await) and isinstance(a.value, ast.Call) and unparse(a.value.func) in ("asyncio.gather", "asyncio.wait", "gather")
                    and any(isinstance(x, ast.Starred) and isinstance(x.value, ast.Name) and x.value.id == lst for x in a.value.args) or (
                        isinstance(a, ast.Await) and isinstance(a.value, ast.Call) and unparse(a.value.func) == "asyncio.wait" and a.value.args and isinstance(a.value.args[0], ast.Name) and a.value.args[0].id == lst)
                    for a in n_.walk())]
                cid = ids_at(f, c)
                ok = bool(gathers) and all(g.escape(x, gathers, kinds=NORMAL) is None for x in cid) and all(g.dominates(gathers, s) for s in set_ids)
        src = _kw(c, "src")
        ctx.ob("R3", f"transfer_data: copy of `{unparse(src) if src is not None else '?'}` is awaited before any destination becomes available", ok, func=f, node=c,
               instance=f"transfer_data:await-copy:{unparse(src) if src is not None else i}",
               message=f"the `_copy(...)` task{' collected in `' + lst + '`' if lst else ''} is not awaited before `available.set()`: the destination is announced while the data is still being written")
        # source registered -> wait for it
        if src is not None:
            sd = deref(f, src)
            if isinstance(sd, ast.Attribute) and sd.attr == "path" and isinstance(sd.value, ast.Name) and loop_binding(f, sd.value.id, c, loops) is not None:
                v = sd.value.id
                lp = loop_binding(f, v, c, loops)[0]
                lids = ids_at(f, lp.node)
                waits = [n_.id for n_ in g.nodes.values() if any(
                    isinstance(a, ast.Await) and isinstance(a.value, ast.Call) and isinstance(a.value.func, ast.Attribute) and a.value.func.attr == "wait"
                    and ktext(f, a.value.func.value) == f"{v}.available" for a in n_.walk())]
                first = [b for i_ in lids for b, k in g.succ[i_] if k == "t"]
                cid = ids_at(f, c)
                okw = bool(waits) and all(b in waits or (b not in cid and g.path(b, cid, avoid=waits + lids) is None) for b in first)
                ctx.ob("R3", f"transfer_data: the registered source `{v}` is awaited (`{v}.available.wait()`) before it is copied", okw, func=f, node=c,
                       instance=f"transfer_data:wait-source:{v}",
                       message=f"`{v}.path` is copied/linked without waiting for `{v}.available`: a copy that is itself still in transfer is used as the source")


def r3b(ctx):
    """transfer_data: every destination location is served by exactly one copy (same-location link/copy XOR the
    shared remote copy); the registered type of a read-only copy follows is_symlink()."""
    prog = ctx.prog
    f = prog.func(f"{MGR}.transfer_data")
    g = f.cfg
    loops = [lp for lp in loops_of(f) if not lp.is_comp]
    copies = [c for c in f.calls() if f"{MGRMOD}._copy" in prog.resolve_call(f, c)]
    remote_lists = set()
    for c in copies:
        dl = _kw(c, "dst_locations")
        if isinstance(dl, ast.Name):
            remote_lists.add(dl.id)
    ctx.require(bool(remote_lists), "C22.R3: the shared remote copy `_copy(..., dst_locations=<list>)` was not found in transfer_data")
    done = 0
    for lst in sorted(remote_lists):
        apps = [x for x in f.calls() if isinstance(x.func, ast.Attribute) and x.func.attr == "append" and isinstance(x.func.value, ast.Name) and x.func.value.id == lst
                and len(x.args) == 1 and isinstance(x.args[0], ast.Name)]
        for a in apps:
            lb = loop_binding(f, a.args[0].id, a, loops)
            if lb is None:
                continue
            outer = ids_at(f, lb[0].node)
            v = a.args[0].id
            local = [c for c in copies if isinstance(_kw(c, "dst_locations"), ast.List) and [ktext(f, e) for e in _kw(c, "dst_locations").elts] == [v]]
            if not local:
                continue
            done += 1
            aid = ids_at(f, a)
            lid = [i for c in local for i in ids_at(f, c)]
            both = next((w for x in lid if (w := g.path(x, aid, avoid=outer, kinds=NORMAL)) is not None), None) or next(
                (w for x in aid if (w := g.path(x, lid, avoid=outer, kinds=NORMAL)) is not None), None)
            first = [b for i in outer for b, k in g.succ[i] if k == "t"]
            none = next((w for b in first if b not in aid + lid and (w := g.path(b, outer + [g.exit], avoid=aid + lid, kinds=NORMAL)) is not None), None)
            ctx.ob("R3", f"transfer_data: `{v}` gets the same-location copy or joins `{lst}` for the remote copy, never both, never neither", both is None and none is None,
                   func=f, node=a, instance=f"transfer_data:one-copy:{lst}",
                   message=(f"a destination can be served by the same-location copy *and* be appended to `{lst}` (two writers on one destination path)" if both is not None
                            else f"a destination can pass the loop without any copy task although it is registered and later set available"),
                   witness=g.describe(both or none or []))
    ctx.require(done >= 1, "C22.R3: the `for ... else: remote_locations.append(dst)` dispatch of transfer_data was not found")
    # type of the registered copy
    marks = 0
    for n in f.body_nodes():
        if isinstance(n, ast.Assign) and len(n.targets) == 1 and isinstance(n.targets[0], ast.Attribute) and n.targets[0].attr == "data_type" and isinstance(n.value, ast.IfExp):
            t = n.value.test
            pos = True
            while isinstance(t, ast.UnaryOp) and isinstance(t.op, ast.Not):
                t, pos = t.operand, not pos
            if isinstance(t, ast.Await):
                t = t.value
            if not (isinstance(t, ast.Call) and isinstance(t.func, ast.Attribute) and t.func.attr == "is_symlink"):
                continue
            marks += 1
            link, plain = (n.value.body, n.value.orelse) if pos else (n.value.orelse, n.value.body)
            ok = isinstance(link, ast.Attribute) and link.attr == "SYMBOLIC_LINK" and isinstance(plain, ast.Attribute) and plain.attr == "PRIMARY"
            ctx.ob("R3", "transfer_data registers a read-only copy as SYMBOLIC_LINK exactly when the destination is a symlink, else PRIMARY", ok, func=f, node=n,
                   instance="transfer_data:link-type", message=f"`{unparse(n)[:100]}` records a real copy as a link (or a link as a primary copy): links are then chosen as transfer sources / copies are skipped")
    ctx.require(marks >= 1, "C22.R3: the data_type decision after the copy (is_symlink) was not found in transfer_data")


# --------------------------------------------------------------------------- R4


def _operand_root(f, e: ast.AST, depth: int = 4) -> str:
    """Text of the value a command operand carries: temporaries and single-argument wrappers
    (`shlex.quote(x)`, `str(x)`) are looked through."""
    d = deref(f, e)
    if depth > 0 and isinstance(d, ast.Call) and len(d.args) == 1 and not d.keywords:
        return _operand_root(f, d.args[0], depth - 1)
    return ktext(f, d) if isinstance(d, (ast.Name, ast.Attribute)) else ktext(f, e)


def r4(ctx):
    prog = ctx.prog
    n = 0
    for f in prog.all_funcs():
        if "read_only" not in f.params:
            continue
        for c in f.calls():
            name = _callee_name(c)
            if name not in COPY_OPS:
                continue
            targets = [prog.functions[q] for q in prog.resolve_call(f, c) if q in prog.functions]
            if targets:
                accepts = [t for t in targets if "read_only" in t.params]
                if not accepts:
                    continue
            elif not isinstance(c.func, ast.Attribute):
                continue
            val = _kw(c, "read_only")
            if val is None and targets:
                # positional
                t = next(t for t in targets if "read_only" in t.params)
                ps = [p for p in t.params if p not in ("self", "cls")]
                idx = ps.index("read_only")
                if len(c.args) > idx and not any(isinstance(a, ast.Starred) for a in c.args):
                    val = c.args[idx]
            if val is None:
                continue  # default False: a full copy
            n += 1
            d = deref(f, val)
            if isinstance(d, ast.Call) and isinstance(d.func, ast.Name) and d.func.id == "bool" and len(d.args) == 1:
                d = deref(f, d.args[0])
            ok = (isinstance(d, ast.Name) and d.id == "read_only") or (isinstance(d, ast.Constant) and d.value is False)
            ctx.ob("R4", f"{f.qualname.split('.', 3)[-1]} -> {name}: read_only is the caller's read_only (or False)", ok, func=f, node=c,
                   instance=f"{name}:read_only:{unparse(val)}",
                   message=f"{name} is called with read_only={unparse(val)}: a writable transfer may be turned into a symbolic link to the source (writes then change the source)")
    ctx.require(n >= 12, f"C22.R4: only {n} read_only forwarding sites found")
    # link/copy idiom: (["ln", "-s.."] if read_only else ["cp", "-r.."]) + [src, dst]
    idioms = 0
    for m in prog.modules.values():
        if '"ln"' not in m.source and "'ln'" not in m.source:
            continue
        for node in ast.walk(m.tree):
            if not isinstance(node, ast.IfExp):
                continue
            words = lambda e: [x.value for x in ast.walk(e) if isinstance(x, ast.Constant) and isinstance(x.value, str)]  # noqa: E731
            wb, wo = words(node.body), words(node.orelse)
            if not (any(w == "ln" for w in wb + wo) and any(w.endswith("cp") for w in wb + wo)):
                continue
            f = prog.enclosing_func(node)
            if f is None:
                continue
            idioms += 1
            atoms = split_atoms(node.test, True)
            pos = len(atoms) == 1 and isinstance(atoms[0][0], ast.Name) and deref(f, atoms[0][0]) is atoms[0][0] and atoms[0][0].id == "read_only"
            link, cp = (wb, wo) if (pos and atoms[0][1]) else (wo, wb)
            ok = pos and "ln" in link and any(w.startswith("-") and "s" in w for w in link) and any(w.endswith("cp") for w in cp) and any(
                w.startswith("-") and ("r" in w or "R" in w or "a" in w) for w in cp)
            # operands: ... + [src, dst]
            par = getattr(node, "_parent", None)
            ops_ok = False
            if isinstance(par, ast.BinOp) and isinstance(par.op, ast.Add) and par.left is node and isinstance(par.right, ast.List):
                names = [_operand_root(f, e) for e in par.right.elts]
                ops_ok = len(names) == 2 and "src" in names[0] and "dst" in names[1]
            ctx.ob("R4", f"{f.name}: symbolic link exactly when read_only, recursive copy otherwise, operands (src, dst)", ok and ops_ok, func=f, node=node,
                   instance=f"{f.name}:ln-cp", message=f"{f.name}: `{unparse(par if par is not None else node)[:100]}` links a writable transfer / copies non-recursively / swaps source and destination")
    ctx.require(idioms >= 1, "C22.R4: the `ln -snf` / `cp -rf` idiom of copy_same_connector was not found")
    # LocalConnector._local_copy
    f = prog.func(f"{LOCAL}._local_copy")
    ctx.require(f.params[:3] == ["src", "dst", "read_only"], f"C22.R4: _local_copy signature changed: {f.params}")
    g = f.cfg

    def under(call) -> bool | None:
        for nid in ids_at(f, call):
            for e, truth, _t in guard_atoms(g, nid):
                if isinstance(e, ast.Name) and e.id == "read_only":
                    return truth
        return None

    seen = {"link": 0, "file": 0, "tree": 0}
    for c in f.calls():
        q = unparse(c.func)
        kind = "link" if q == "os.symlink" else "file" if q in ("shutil.copy", "shutil.copy2", "shutil.copyfile") else "tree" if q == "shutil.copytree" else None
        if kind is None:
            continue
        seen[kind] += 1
        a0 = ktext(f, c.args[0]) if len(c.args) > 0 else ktext(f, _kw(c, "src")) if _kw(c, "src") is not None else ""
        a1 = c.args[1] if len(c.args) > 1 else _kw(c, "dst")
        order = a0 == "src" and a1 is not None and any(isinstance(x, ast.Name) and x.id == "dst" for x in ast.walk(a1))
        pol = under(c) is (kind == "link")
        mode = q != "shutil.copyfile"
        ctx.ob("R4", f"_local_copy: {q}(src, dst) is used {'only for read-only' if kind == 'link' else 'only for writable'} transfers", order and pol and mode, func=f, node=c,
               instance=f"_local_copy:{kind}",
               message=f"_local_copy: `{unparse(c)[:80]}`: " + ("operands are not (src, dst); " if not order else "") + ("wrong branch of `if read_only`; " if not pol else "")
               + ("shutil.copyfile drops the permission bits (executables lose their x bit)" if not mode else ""))
    ctx.ob("R4", "_local_copy links, copies files and copies trees", all(seen.values()), func=f, node=f.node, instance="_local_copy:complete",
           message=f"_local_copy lost one of os.symlink / shutil.copy / shutil.copytree: {seen}")


# --------------------------------------------------------------------------- R5

# library copy primitives: qualified name -> (keyword deciding the link policy, its position, library default,
#                                             value under which links are followed)
PY_COPIES = {
    "shutil.copytree": ("symlinks", 2, False, False),
    "shutil.copy": ("follow_symlinks", 2, True, True),
    "shutil.copy2": ("follow_symlinks", 2, True, True),
    "shutil.copyfile": ("follow_symlinks", 2, True, True),
}
TARSTREAM = "streamflow.deployment.aiotarstream"
TARSTREAM_OPEN = (f"{TARSTREAM}.open", f"{TARSTREAM}.AioTarStream.open")
_R5_NAMES = {q.rsplit(".", 1)[-1] for q in PY_COPIES} | {"open"}
_TAR_WORD = re.compile(r"""['"](?:/[\w/]*/)?tar[ '"]""")


def _r5_scope(prog):
    return [m for m in prog.modules.values() if m.name == UTILS or m.name.split(".")[:2] in (["streamflow", "deployment"], ["streamflow", "data"])]


def _bool_value(f, e: ast.AST, nids) -> bool | None:
    """Value of a flag argument: a constant (through temporaries), `not <flag>`, or a name/parameter whose truth
    is fixed by the tests guarding the call; None = not decidable."""
    d = deref(f, e)
    if isinstance(d, ast.Constant) and isinstance(d.value, bool):
        return d.value
    if isinstance(d, ast.UnaryOp) and isinstance(d.op, ast.Not):
        v = _bool_value(f, d.operand, nids)
        return None if v is None else not v
    if isinstance(d, ast.Name) and nids:
        vals = set()
        for nid in nids:
            here = {truth for x, truth, _t in guard_atoms(f.cfg, nid) if isinstance(x, ast.Name) and x.id == d.id}
            vals.add(next(iter(here)) if len(here) == 1 else None)
        if len(vals) == 1:
            return next(iter(vals))
    return None


def _effective(c: ast.Call, kw: str, pos: int):
    """-> (expression | None, hidden?) of the argument `kw` (position `pos`) at call c."""
    for k in c.keywords:
        if k.arg == kw:
            return k.value, False
    if any(isinstance(a, ast.Starred) for a in c.args[: pos + 1]) or any(k.arg is None for k in c.keywords):
        return None, True
    if len(c.args) > pos:
        return c.args[pos], False
    return None, False


def _tar_words(e: ast.AST):
    """Constant shell words of a command expression that starts with the word `tar` (list of words / f-string /
    string), else None.  Run-time operands are skipped: only the literal option words matter here."""
    parts = []
    if isinstance(e, (ast.List, ast.Tuple)):
        for x in e.elts:
            if isinstance(x, ast.Constant) and isinstance(x.value, str):
                parts.append(x.value)
            elif isinstance(x, ast.JoinedStr):
                parts += [v.value for v in x.values if isinstance(v, ast.Constant) and isinstance(v.value, str)]
            elif not parts:
                return None
    elif isinstance(e, ast.JoinedStr):
        if not (e.values and isinstance(e.values[0], ast.Constant)):
            return None
        parts = [v.value for v in e.values if isinstance(v, ast.Constant) and isinstance(v.value, str)]
    else:
        return None
    words = " ".join(parts).split()
    if not words or words[0].rsplit("/", 1)[-1] != "tar":
        return None
    return words[1:]


def _tar_policy(words):
    """-> (creates an archive?, follows links?) from the option words of a tar command."""
    bundles = [w.lstrip("-") for i, w in enumerate(words) if (i == 0 and not w.startswith("--") and w != "-") or (w.startswith("-") and not w.startswith("--") and len(w) > 1)]
    create = any("c" in b for b in bundles) or "--create" in words
    follow = any("h" in b for b in bundles) or "--dereference" in words
    return create, follow


def r5(ctx):
    prog = ctx.prog
    n_py = n_tar = n_open = 0
    # the anchors must still be there (a moved helper is an analysis error, not a silent pass)
    lc = prog.func(f"{LOCAL}._local_copy")
    ctx.require(any(q in PY_COPIES for c in lc.calls() for q in prog.resolve_call(lc, c)), "C22.R5: _local_copy no longer uses a shutil copy primitive")
    flags = {id(m): (any(w in m.source for w in ("shutil", "copytree", "aiotarstream")), _TAR_WORD.search(m.source) is not None) for m in _r5_scope(prog)}
    srcs: dict = {}
    for f in prog.all_funcs():
        has_py, has_tar = flags.get(id(f.module), (False, False))
        if not (has_py or has_tar):
            continue
        if True:
            short = f.qualname.split(".", 3)[-1]
            for c in f.calls() if has_py else []:
                if _callee_name(c) not in _R5_NAMES:
                    continue
                qs = prog.resolve_call(f, c, fanout=False)
                q = next((q for q in qs if q in PY_COPIES), None)
                if q is not None:
                    kw, pos, default, want = PY_COPIES[q]
                    n_py += 1
                    val, hidden = _effective(c, kw, pos)
                    got = default if (val is None and not hidden) else None if val is None else _bool_value(f, val, ids_at(f, c))
                    ctx.ob("R5", f"{short}: {q}(...) follows symbolic links ({kw}={unparse(val) if val is not None else ('<hidden>' if hidden else f'<default {default}>')})",
                           got is want, func=f, node=c, instance=f"{q}:{kw}",
                           message=f"{short}: `{' '.join(unparse(c).split())[:100]}` runs with {kw}={unparse(val) if val is not None else '<not visible>'}"
                                   f"{'' if got is not None else ' (cannot be shown to be ' + str(want) + ')'}: symbolic links of the source tree are re-created at the destination instead of the "
                                   "files/directories they resolve to -- relative links dangle at the new depth, absolute ones alias the source of a writable copy")
                elif any(t in qs for t in TARSTREAM_OPEN):
                    mode, _h = _effective(c, "mode", 1)
                    md = deref(f, mode) if mode is not None else None
                    if not (isinstance(md, ast.Constant) and isinstance(md.value, str) and md.value[:1] in ("w", "x", "a")):
                        continue  # reader
                    n_open += 1
                    val, hidden = _effective(c, "dereference", 1 << 10)
                    got = None if val is None else _bool_value(f, val, ids_at(f, c))
                    ctx.ob("R5", f"{short}: aiotarstream.open(mode={md.value!r}) archives what links resolve to (dereference=True)", got is True, func=f, node=c,
                           instance=f"aiotarstream.open:{md.value}:dereference",
                           message=f"{short}: the tar writer is opened with dereference={unparse(val) if val is not None else '<default False>'}: symbolic links below (or at) the local source are "
                                   "archived as links and re-created on the remote location, where they dangle")
            if not has_tar:
                continue
            seg = srcs.setdefault(id(f.module), f.module.source.splitlines())[f.node.lineno - 1 : getattr(f.node, "end_lineno", None)]
            if not any(_TAR_WORD.search(ln) for ln in seg):
                continue
            for e in f.body_nodes():
                if not isinstance(e, (ast.List, ast.Tuple, ast.JoinedStr)):
                    continue
                if isinstance(getattr(e, "_parent", None), (ast.List, ast.Tuple)) and _tar_words(e._parent) is not None:
                    continue  # an f-string word of a command list already handled
                words = _tar_words(e)
                if words is None:
                    continue
                create, follow = _tar_policy(words)
                if not create:
                    continue
                n_tar += 1
                ctx.ob("R5", f"{short}: tar create command `tar {' '.join(words)[:40]}` dereferences links (`h`)", follow, func=f, node=e,
                       instance=f"tar-create:{short}",
                       message=f"{short}: the archive is produced by `tar {' '.join(words)[:60]}` without `h`/`--dereference`: symbolic links below (or at) the source are shipped as links and "
                               "dangle on the destination location (a source that is itself a link, e.g. after a read-only transfer, arrives as a dangling link)")
    ctx.require(n_py >= 2, f"C22.R5: only {n_py} shutil copy calls found in the transfer code (_local_copy: copytree + copy expected)")
    ctx.require(n_tar >= 2, f"C22.R5: only {n_tar} tar create commands found (copy_remote_to_remote, BaseConnector.copy_remote_to_local expected)")
    ctx.require(n_open >= 1, f"C22.R5: no aiotarstream.open(mode='w') found (copy_local_to_remote expected)")
    # `cp -r` keeps links (GNU / busybox: -R implies -P) -- today's copy_same_connector: observation only
    cp_word = re.compile(r"""['"](?:/[\w/]*/)?cp['"]""")
    for m in _r5_scope(prog):
        if cp_word.search(m.source) is None:
            continue
        for node in ast.walk(m.tree):
            if isinstance(node, ast.List) and node.elts and isinstance(node.elts[0], ast.Constant) and isinstance(node.elts[0].value, str) and node.elts[0].value.rsplit("/", 1)[-1] == "cp":
                opts = [x.value for x in node.elts[1:] if isinstance(x, ast.Constant) and isinstance(x.value, str) and x.value.startswith("-")]
                rec = any((not o.startswith("--") and ("r" in o or "R" in o or "a" in o)) or o in ("--recursive", "--archive") for o in opts)
                der = any((not o.startswith("--") and "L" in o) or o == "--dereference" for o in opts)
                if rec and not der:
                    ctx.observe(f"C22.R5 {m.relpath}:{node.lineno}: `{unparse(node)}` copies recursively without `-L`: symbolic links (also a source path that is itself a link) are "
                                "re-created, not materialised, by a writable same-location copy (not armed: present on the pinned tree; reported)")


# --------------------------------------------------------------------------- R6

# The transfer helpers name the two sides of a copy in their signatures.  (kind, side) of a parameter:
SIDE_PARAMS = {
    "src_connector": ("connector", "src"), "source_connector": ("connector", "src"), "dst_connector": ("connector", "dst"),
    "src_location": ("location", "src"), "source_location": ("location", "src"), "src_locations": ("location", "src"), "source_locations": ("location", "src"),
    "dst_location": ("location", "dst"), "dst_locations": ("location", "dst"),
    "src": ("path", "src"), "src_path": ("path", "src"), "dst": ("path", "dst"), "dst_path": ("path", "dst"),
}
# in a helper that receives the *source* connector separately, the unprefixed connector/locations are the destination's
UNPREFIXED_DST = {"connector": ("connector", "dst"), "location": ("location", "dst"), "locations": ("location", "dst")}
STREAM_SIDE = {"get_stream_reader": "src", "get_stream_writer": "dst"}
SIDE_OPS = ("run", "get_stream_reader", "get_stream_writer")
SIDE_WORD = {"src": "source", "dst": "destination"}


def _param_role(f, name: str):
    if name not in f.params:
        return None
    r = SIDE_PARAMS.get(name)
    if r is None and name in UNPREFIXED_DST and any(SIDE_PARAMS.get(p) == ("connector", "src") for p in f.params):
        r = UNPREFIXED_DST[name]
    return r


def _endpoint_role(f, e: ast.AST, at: ast.AST, loops, depth: int = 5):
    """(kind, side) of the connector / location an argument denotes: a role parameter, an element of it
    (`dst_locations[0]`, `next(iter(dst_locations))`, the variable of a loop/comprehension over it) or a
    temporary holding one; None otherwise."""
    while depth > 0:
        depth -= 1
        if isinstance(e, (ast.Starred, ast.Await, ast.Subscript, ast.NamedExpr)):
            e = e.value
        elif isinstance(e, ast.Call) and isinstance(e.func, ast.Name) and e.func.id in ("next", "iter", "list", "tuple", "sorted", "reversed") and e.args:
            e = e.args[0]
        elif isinstance(e, ast.Name):
            if e.id in f.params:
                return _param_role(f, e.id)
            d = deref(f, e)
            if d is not e:
                e = d
                continue
            lb = loop_binding(f, e.id, at, loops)
            if lb is None or lb[1] is not None:
                return None
            e = lb[0].iter
        else:
            return None
    return None


def _path_sides(f, e: ast.AST, at: ast.AST, loops, depth: int = 4, seen=None) -> set:
    """Sides of the path parameters (`src` / `dst`) an expression is built from (through temporaries, wrappers such
    as shlex.quote / posixpath.dirname, f-strings, lists, loop variables)."""
    seen = set() if seen is None else seen
    out = set()
    for x in ast.walk(e):
        if not isinstance(x, ast.Name) or not isinstance(x.ctx, ast.Load):
            continue
        if x.id in f.params:
            r = _param_role(f, x.id)
            if r is not None and r[0] == "path":
                out.add(r[1])
            continue
        if depth <= 0 or x.id in seen:
            continue
        seen.add(x.id)
        d = deref(f, x)
        if d is not x:
            out |= _path_sides(f, d, at, loops, depth - 1, seen)
        else:
            lb = loop_binding(f, x.id, at, loops)
            if lb is not None:
                out |= _path_sides(f, lb[0].iter, at, loops, depth - 1, seen)
    return out


def r6(ctx):
    """Side agreement: within a transfer helper a connector operation is addressed to ONE side -- the connector,
    the location, the path operands of the command (when they all belong to one side) and the direction of a stream
    (reader = source, writer = destination) agree; values forwarded under a side-named keyword keep their side."""
    prog = ctx.prog
    n_calls = 0
    for f in _r1_funcs(prog):
        if not any(_param_role(f, p) is not None and _param_role(f, p)[0] in ("connector", "location") for p in f.params):
            continue
        loops = loops_of(f)
        short = f.qualname.split(".", 3)[-1]
        for c in f.calls():
            name = _callee_name(c)
            ends = ([("<receiver>", c.func.value)] if isinstance(c.func, ast.Attribute) else []) + [(f"arg {i}", a) for i, a in enumerate(c.args)] + [
                (k.arg or "**", k.value) for k in c.keywords]
            roles = [(label, e, _endpoint_role(f, e, c, loops)) for label, e in ends]
            cr = {r[1] for _l, _e, r in roles if r is not None and r[0] == "connector"}
            lr = {r[1] for _l, _e, r in roles if r is not None and r[0] == "location"}
            if not cr and not lr:
                continue
            # only operations of a connector and resolved helpers of the program (not logging / formatting)
            targets = [prog.functions[q] for q in prog.resolve_call(f, c) if q in prog.functions]
            is_op = isinstance(c.func, ast.Attribute) and (name in SIDE_OPS or (roles[0][2] is not None and roles[0][2][0] == "connector"))
            if not targets and not is_op:
                continue
            # forwarding under side-named keywords
            wrong = []
            n_kw = 0
            for k in c.keywords:
                want = SIDE_PARAMS.get(k.arg or "")
                if want is None:
                    continue
                if want[0] == "path":
                    got = _path_sides(f, k.value, c, loops)
                    if len(got) != 1:
                        continue
                    got = next(iter(got))
                else:
                    r = _endpoint_role(f, k.value, c, loops)
                    if r is None or r[0] != want[0]:
                        continue
                    got = r[1]
                n_kw += 1
                if got != want[1]:
                    wrong.append(f"{k.arg}={unparse(k.value)} (a {SIDE_WORD[got]}-side value)")
            if n_kw:
                ctx.ob("R6", f"{short} -> {name}: values passed under side-named keywords keep their side", not wrong, func=f, node=c,
                       instance=f"{name}:kw-sides:{','.join(sorted(k.arg for k in c.keywords if k.arg in SIDE_PARAMS))}",
                       message=f"{short}: `{name}(...)` receives " + "; ".join(wrong) + ": source and destination are crossed")
            if len(cr) > 1 or len(lr) > 1:
                continue  # both sides are handed on (a nested transfer helper): covered by the keyword check above
            ps = set()
            for _l, e, r in roles:
                if r is None:
                    ps |= _path_sides(f, e, c, loops)
            facts = []
            if cr:
                facts.append(("connector", next(iter(cr)), next(unparse(e) for _l, e, r in roles if r is not None and r[0] == "connector")))
            if lr:
                facts.append(("location", next(iter(lr)), next(unparse(e) for _l, e, r in roles if r is not None and r[0] == "location")))
            if len(ps) == 1:
                side = next(iter(ps))
                facts.append(("path operand", side, "src" if side == "src" else "dst"))
            if name in STREAM_SIDE and isinstance(c.func, ast.Attribute):
                facts.append(("stream direction", STREAM_SIDE[name], name))
            if len(facts) < 2:
                continue
            n_calls += 1
            sides = {s_ for _k, s_, _t in facts}
            cmd = _kw(c, "command")
            words = []
            if cmd is not None:
                for x in ast.walk(deref(f, cmd)):
                    if isinstance(x, ast.Constant) and isinstance(x.value, str):
                        words += x.value.split()
            desc = "; ".join(f"{k} `{t}` = {SIDE_WORD[s_]}" for k, s_, t in facts)
            ctx.ob("R6", f"{short}: {name}({' '.join(words)[:30]}) addresses one side ({desc})", len(sides) == 1, func=f, node=c,
                   instance=f"{name}:side:{' '.join(words)[:40]}:{','.join(sorted(ps))}",
                   message=f"{short}: `{' '.join(unparse(c).split())[:140]}` mixes the two sides of the transfer: {desc} -- a probe/command about the "
                           f"{SIDE_WORD['src' if 'src' in ps or not ps else 'dst']} path answers for (or acts on) the other host's file system, so the writer/reader chosen from it does not fit the data")
    ctx.require(n_calls >= 6, f"C22.R6: only {n_calls} side-addressed connector operations found in the transfer helpers "
                              "(3 run probes of get_remote_to_remote_write_command, 1 of get_local_to_remote_destination, reader + writer of copy_remote_to_remote expected)")


# --------------------------------------------------------------------------- R7

PLURAL_DST = ("dst_locations", "locations")
# first words of commands that only *ask* a location something (one representative location may answer)
PROBE_WORDS = {"test", "[", "[[", "stat", "ls", "readlink", "realpath", "cat", "head", "tail", "wc", "find", "du", "df", "echo", "printf", "which", "command",
               "type", "file", "true", "pwd", "id", "whoami", "hostname", "uname", "env", "printenv", "md5sum", "sha1sum", "sha256sum", "cksum", "nproc", "free",
               "basename", "dirname"}
_WRAPPERS = ("list", "tuple", "sorted", "reversed", "iter", "set", "frozenset")
_PICKERS = ("next", "min", "max")
LOC_POS = {"run": 0, "get_stream_writer": 1}


class _Cov:
    """Where a location / collection expression comes from: `root` (a collection parameter), `whole` (it denotes
    the collection or the parameter itself, not an element), `complete` (every element is visited / kept), `how`."""
    __slots__ = ("root", "whole", "complete", "how", "loop")

    def __init__(self, root, whole, complete, how, loop=None):
        self.root, self.whole, self.complete, self.how, self.loop = root, whole, complete, how, loop


def _is_full_slice(s) -> bool:
    return isinstance(s, ast.Slice) and s.lower is None and s.upper is None and s.step is None


def _trace(f, e: ast.AST, at: ast.AST, loops, roots, depth: int = 8):
    """Trace a location operand / collection argument back to one of the collection parameters `roots` -> _Cov | None."""
    if depth <= 0 or e is None:
        return None
    nxt = lambda x: _trace(f, x, at, loops, roots, depth - 1)  # noqa: E731
    if isinstance(e, (ast.Starred, ast.Await, ast.NamedExpr)):
        return nxt(e.value)
    if isinstance(e, ast.Name):
        lb = loop_binding(f, e.id, at, loops)
        if lb is not None:
            lp, pos = lb
            it = lp.iter
            if isinstance(it, ast.Call) and isinstance(it.func, ast.Name) and not it.keywords:
                if it.func.id == "enumerate" and it.args and pos == 1:
                    it, pos = it.args[0], None
                elif it.func.id == "zip" and pos is not None and 0 <= pos < len(it.args) and not any(isinstance(a, ast.Starred) for a in it.args):
                    it, pos = it.args[pos], None
            if pos is not None:
                return None
            t = nxt(it)
            if t is None:
                return None
            return _Cov(t.root, False, t.complete, t.how if not t.complete else f"each element of `{' '.join(unparse(lp.iter).split())[:60]}`", lp)
        if e.id in roots:
            return _Cov(e.id, True, True, e.id)
        d = deref(f, e)
        return nxt(d) if d is not e else None
    if isinstance(e, ast.Subscript):
        t = nxt(e.value)
        if t is None or not t.whole:
            return None
        if isinstance(e.slice, ast.Slice):
            if _is_full_slice(e.slice):
                return t
            return _Cov(t.root, True, False, f"the slice `{unparse(e)}`")
        # C[i] with i running over range(len(C)) visits every element
        ix = e.slice
        if isinstance(ix, ast.Name):
            lb = loop_binding(f, ix.id, at, loops)
            if lb is not None and lb[1] is None:
                it = lb[0].iter
                if isinstance(it, ast.Call) and isinstance(it.func, ast.Name) and it.func.id == "range" and len(it.args) == 1 and not it.keywords:
                    a = deref(f, it.args[0])
                    if isinstance(a, ast.Call) and isinstance(a.func, ast.Name) and a.func.id == "len" and len(a.args) == 1:
                        t2 = nxt(a.args[0])
                        if t2 is not None and t2.whole and t2.root == t.root:
                            return _Cov(t.root, False, t.complete and t2.complete, f"`{unparse(e)}` for every index", lb[0])
                return None  # an index computed some other way: not decidable here
            if lb is not None:
                return None
        return _Cov(t.root, False, False, f"the single element `{' '.join(unparse(e).split())}`")
    if isinstance(e, ast.Call):
        fn = e.func
        if isinstance(fn, ast.Name) and e.args and not any(isinstance(a, ast.Starred) for a in e.args):
            if fn.id in _WRAPPERS and len(e.args) == 1:
                return nxt(e.args[0])
            if fn.id in _PICKERS:
                t = nxt(e.args[0])
                return _Cov(t.root, False, False, f"the single element `{' '.join(unparse(e).split())}`") if t is not None and t.whole else None
        if isinstance(fn, ast.Attribute) and not e.keywords:
            if fn.attr == "copy" and not e.args:
                return nxt(fn.value)
            if fn.attr == "pop":
                t = nxt(fn.value)
                return _Cov(t.root, False, False, f"the single element `{' '.join(unparse(e).split())}`") if t is not None and t.whole else None
        return None
    if isinstance(e, (ast.List, ast.Tuple, ast.Set)) and e.elts:
        ts = [(x, nxt(x)) for x in e.elts]
        if len(ts) == 1 and isinstance(ts[0][0], ast.Starred) and ts[0][1] is not None and ts[0][1].whole:
            return ts[0][1]  # [*C]
        hit = next((t for _x, t in ts if t is not None), None)
        if hit is not None and all(t is not None and t.root == hit.root and not t.whole and t.complete and t.loop is hit.loop for _x, t in ts):
            return _Cov(hit.root, True, True, hit.how, hit.loop)  # `[loc]` handed on for every `loc` of the collection
        if hit is not None and all(t is not None and t.root == hit.root for _x, t in ts) and not any(isinstance(x, ast.Starred) and t.whole and t.complete for x, t in ts):
            return _Cov(hit.root, True, False, f"the hand-picked element(s) `{' '.join(unparse(e).split())[:60]}`")
        return None
    if isinstance(e, (ast.ListComp, ast.SetComp, ast.GeneratorExp)) and len(e.generators) == 1:
        gen = e.generators[0]
        if isinstance(gen.target, ast.Name) and isinstance(e.elt, ast.Name) and e.elt.id == gen.target.id:
            t = nxt(gen.iter)  # a filter (`if ...`) is a selection by a property of the element, like a guarded loop body
            return _Cov(t.root, True, t.complete, t.how) if t is not None and t.whole else None
        return None
    return None


def _first_words(f, e: ast.AST, depth: int = 5):
    """Set of possible first shell words of a command expression (None inside = unknown)."""
    if depth <= 0 or e is None:
        return {None}
    d = deref(f, e) if isinstance(e, ast.Name) else e
    if isinstance(d, ast.Name):
        return {None}
    if isinstance(d, (ast.List, ast.Tuple)):
        return _first_words(f, d.elts[0], depth - 1) if d.elts and not isinstance(d.elts[0], ast.Starred) else {None}
    if isinstance(d, ast.Constant) and isinstance(d.value, str):
        w = d.value.split()
        return {w[0].rsplit("/", 1)[-1]} if w else {None}
    if isinstance(d, ast.JoinedStr):
        v = d.values[0] if d.values else None
        if isinstance(v, ast.Constant) and isinstance(v.value, str) and v.value.split() and (len(v.value.split()) > 1 or v.value[-1:].isspace() or len(d.values) == 1):
            return {v.value.split()[0].rsplit("/", 1)[-1]}
        return {None}
    if isinstance(d, ast.BinOp) and isinstance(d.op, ast.Add):
        return _first_words(f, d.left, depth - 1)
    if isinstance(d, ast.IfExp):
        return _first_words(f, d.body, depth - 1) | _first_words(f, d.orelse, depth - 1)
    return {None}


def _changes_host(f, c: ast.Call):
    """Is the connector operation `c` one that changes the addressed host (-> description) or a probe (-> None)?"""
    name = _callee_name(c)
    if name == "get_stream_writer":
        return "get_stream_writer"
    if name != "run":
        return None
    words = _first_words(f, _kw(c, "command", 1))
    known = sorted(w for w in words if w is not None)
    if known and None not in words:
        eff = [w for w in known if w not in PROBE_WORDS]
        return f"run `{'|'.join(eff)}`" if eff else None
    if any(w not in PROBE_WORDS for w in known):
        return f"run `{'|'.join(w for w in known if w not in PROBE_WORDS)}`"
    # first word not visible: an operation whose output is asked for is a probe, one run for its effect is not
    cap = _kw(c, "capture_output")
    known_c, v = const_of(f, cap)
    return None if (known_c and v is True) else "run `<command>`"


def _bind(callee, call: ast.Call):
    """[(parameter name, argument expression)] of a resolved call ([] when */** hide the binding)."""
    if any(isinstance(a, ast.Starred) for a in call.args) or any(k.arg is None for k in call.keywords):
        return []
    a = callee.node.args
    pos = [p.arg for p in list(a.posonlyargs) + list(a.args)]
    is_static = any(unparse(d) == "staticmethod" for d in callee.node.decorator_list)
    if callee.cls is not None and not is_static and pos and isinstance(call.func, ast.Attribute):
        pos = pos[1:]
    names = set(pos) | {p.arg for p in a.kwonlyargs}
    out = [(pos[i], x) for i, x in enumerate(call.args) if i < len(pos)]
    out += [(k.arg, k.value) for k in call.keywords if k.arg in names]
    return out


def _acts_on(prog, callee, param: str, depth: int, memo: dict) -> bool:
    """Does `callee` (transitively, `depth` resolved calls) change the host(s) denoted by its parameter `param`
    (a location or a collection of locations)?"""
    key = (callee.qualname, param)
    if key in memo:
        return memo[key]
    memo[key] = False
    loops = loops_of(callee)
    res = False
    for c in callee.calls():
        name = _callee_name(c)
        if isinstance(c.func, ast.Attribute) and name in LOC_POS:
            loc = _kw(c, "location", LOC_POS[name])
            if loc is not None and _trace(callee, loc, c, loops, {param}) is not None and _changes_host(callee, c) is not None:
                res = True
                break
        if isinstance(c.func, ast.Attribute) and name in SIDE_OPS:
            continue  # the connector interface is the boundary: its implementations are not transfer helpers
        if depth > 0:
            for q in prog.resolve_call(callee, c):
                t = prog.functions.get(q)
                if t is None or t is callee:
                    continue
                if any(_trace(callee, x, c, loops, {param}) is not None and _acts_on(prog, t, p, depth - 1, memo) for p, x in _bind(t, c)):
                    res = True
                    break
            if res:
                break
    memo[key] = res
    return res


def _leaves_early(f, c: ast.Call, lp, var: str) -> bool:
    """The statement loop `lp` cannot come back to its head once `c` ran, and `c` is not selected by a test on the
    loop variable inside the loop (a search loop such as copy_same_connector's): only the first element is served."""
    g = f.cfg
    lids = ids_at(f, lp.node)
    cid = ids_at(f, c)
    if not lids or not cid:
        return False
    if any(g.path(x, lids, kinds=NORMAL) is not None for x in cid):
        return False
    inside = {id(n) for n in ast.walk(lp.node)}
    for x in cid:
        for e, _truth, tid in guard_atoms(g, x):
            t_ast = g.nodes[tid].ast
            if t_ast is not None and id(t_ast) in inside and any(isinstance(n, ast.Name) and n.id == var for n in ast.walk(t_ast)):
                return False
    return True


def r7(ctx):
    """Destination fan-out: every host-changing operation of a transfer helper that holds the destinations as a
    collection serves every element of the collection."""
    prog = ctx.prog
    scope = {id(prog.module(UTILS)), id(prog.module(BASE))}
    prog.func(f"{UTILS}.get_remote_to_remote_write_command")
    prog.func(f"{BASE}.copy_remote_to_remote")
    work: dict[str, set] = {}
    for f in prog.all_funcs():
        if id(f.module) in scope:
            ps = {p for p in f.params if p in PLURAL_DST}
            if ps:
                work[f.qualname] = ps
    memo: dict = {}
    done: dict[str, set] = {}
    todo = [(q, 0) for q in sorted(work)]
    n = 0
    while todo:
        q, lvl = todo.pop(0)
        roots = work[q] - done.get(q, set())
        if not roots:
            continue
        done.setdefault(q, set()).update(roots)
        f = prog.functions[q]
        loops = loops_of(f)
        short = f.qualname.split(".", 3)[-1]
        for c in f.calls():
            name = _callee_name(c)
            sites = []  # (what, operand expression, coverage)
            if isinstance(c.func, ast.Attribute) and name in LOC_POS:
                loc = _kw(c, "location", LOC_POS[name])
                cov = _trace(f, loc, c, loops, roots) if loc is not None else None
                what = _changes_host(f, c) if cov is not None else None
                if cov is not None and what is not None and not cov.whole:
                    sites.append((f"{name}:{what}", loc, cov, None))
            else:
                for tq in prog.resolve_call(f, c):
                    t = prog.functions.get(tq)
                    if t is None or t is f:
                        continue
                    for p, x in _bind(t, c):
                        cov = _trace(f, x, c, loops, roots)
                        if cov is None or not _acts_on(prog, t, p, 2, memo):
                            continue
                        sites.append((f"{t.name}({p}=)", x, cov, (t, p) if cov.whole else None))
            seen = set()
            for what, x, cov, follow in sites:
                if (what, cov.root) in seen:
                    continue
                seen.add((what, cov.root))
                complete, how = cov.complete, cov.how
                if complete and cov.loop is not None and not cov.loop.is_comp:
                    var = next((nm.id for nm in ast.walk(cov.loop.target) if isinstance(nm, ast.Name)), "")
                    if _leaves_early(f, c, cov.loop, var):
                        complete, how = False, f"the first element of `{unparse(cov.loop.iter)}` (the loop is left right after it)"
                n += 1
                ctx.ob("R7", f"{short}: {what} serves every location of `{cov.root}` ({how})", complete, func=f, node=c,
                       instance=f"fanout:{what}:{cov.root}",
                       message=f"{short}: `{' '.join(unparse(c).split())[:150]}` changes the destination on {how} only, not on every location of `{cov.root}`: with two or more "
                               "destination locations the others are not prepared (no target directory for their tar writer) / receive no data, and the multiplexed copy breaks or "
                               "leaves them incomplete",
                       witness=[f"operand: {' '.join(unparse(x).split())[:120]}", f"collection parameter: {cov.root} of {f.qualname}"])
                if follow is not None and complete and lvl < 3:
                    t, p = follow
                    if p not in done.get(t.qualname, set()):
                        work.setdefault(t.qualname, set()).add(p)
                        todo.append((t.qualname, lvl + 1))
    ctx.require(n >= 1, "C22.R7: no destination-changing operation over a collection of destination locations found in the transfer helpers")


RULES = [("R1", r1), ("R2", r2), ("R3", lambda ctx: (r3(ctx), r3b(ctx))), ("R4", r4), ("R5", r5), ("R6", r6), ("R7", r7)]
FLOORS = {"R1": 10, "R2": 10, "R3": 6, "R4": 14, "R5": 6, "R6": 8, "R7": 5}

BC = f"{BASE}.BaseConnector"
_W = f"{UTILS}.get_remote_to_remote_write_command"
_MKDIR_ALL = "await asyncio.gather(*(asyncio.create_task(dst_connector.run(location=dst_location, command=['mkdir', '-p', shlex.quote(dst)])) for dst_location in dst_locations))"
_RP_FIRST = "DataLocation(location=location, path=path, relpath=relpath or path, data_type=data_type, available=False)"
_RP_INNER = "DataLocation(location=location.wraps, path=str(path), relpath=relpath or str(path), data_type=data_type, available=False)"
_RP_INNER_T = "DataLocation(location=location.wraps, path=inner_path, relpath=relpath or inner_path, data_type=data_type, available=False)"
VARIANTS = [
    # ---- R1 (today's tree already holds unquoted operands in the helpers; these add new ones elsewhere)
    V("BaseConnector.copy_local_to_remote: dst spliced into the writer command", BASEFILE, f"{BC}.copy_local_to_remote",
      "writer_command=['tar', 'xpf', '-', '-C', '/']", "writer_command=['tar', 'xpf', '-', '-C', posixpath.dirname(dst)]", "R1", control=True),
    V("copy_remote_to_local helper: extra run with a raw operand", BASEFILE, f"{BASE}.copy_remote_to_local",
      "async with await connector.get_stream_reader(command=reader_command, location=location) as reader:",
      "await connector.run(location=location, command=['test', '-e', src])\n    async with await connector.get_stream_reader(command=reader_command, location=location) as reader:", "R1"),
    V("copy_local_to_remote helper: double quotes instead of shlex.quote", BASEFILE, f"{BASE}.copy_local_to_remote",
      "async with await connector.get_stream_writer(command=writer_command, location=location) as writer:",
      "await connector.run(location=location, command=[f'mkdir -p \"{dst}\"'])\n    async with await connector.get_stream_writer(command=writer_command, location=location) as writer:", "R1"),
    V("get_local_to_remote_destination: second unquoted command", UTILSFILE, f"{UTILS}.get_local_to_remote_destination",
      "if status > 1:", "await dst_connector.run(location=dst_location, command=['ls', src])\n    if status > 1:", "R1"),
    # ---- R2
    V("_copy: read_only=False constant on one branch", MGRFILE, f"{MGRMOD}._copy",
      "await src_connector.copy_remote_to_local(src=src, dst=dst, location=src_location, read_only=not writable)",
      "await src_connector.copy_remote_to_local(src=src, dst=dst, location=src_location, read_only=False)", "R2", control=True),
    V("_copy: read_only = writable", MGRFILE, f"{MGRMOD}._copy",
      "await dst_connector.copy_local_to_remote(src=src, dst=dst, locations=dst_locations, read_only=not writable)",
      "await dst_connector.copy_local_to_remote(src=src, dst=dst, locations=dst_locations, read_only=writable)", "R2"),
    V("_copy: src and dst swapped on the remote-remote branch", MGRFILE, f"{MGRMOD}._copy",
      "await dst_connector.copy_remote_to_remote(src=src, dst=dst,", "await dst_connector.copy_remote_to_remote(src=dst, dst=src,", "R2"),
    V("_copy: remote-to-local issued on the destination connector", MGRFILE, f"{MGRMOD}._copy", "await src_connector.copy_remote_to_local(", "await dst_connector.copy_remote_to_local(", "R2"),
    V("_copy: dispatch tests the source twice", MGRFILE, f"{MGRMOD}._copy", "elif dst_locations[0].local:", "elif src_location.local:", "R2"),
    V("_copy: inverted first test", MGRFILE, f"{MGRMOD}._copy", "if src_location.local:", "if not src_location.local:", "R2"),
    V("_copy: remote-remote branch forgotten", MGRFILE, f"{MGRMOD}._copy",
      "else:\n        await dst_connector.copy_remote_to_remote(src=src, dst=dst, locations=dst_locations, source_location=src_location, source_connector=src_connector, read_only=not writable)", "", "R2"),
    # ---- R3
    V("transfer_data: final available.set() only for read-only transfers", MGRFILE, f"{MGR}.transfer_data",
      "            self.register_relation(data_location, inner_data_location)\n        data_location.available.set()",
      "            self.register_relation(data_location, inner_data_location)\n        if not writable:\n            data_location.available.set()", "R3", control=True),
    V("transfer_data: destination not collected for the final loop", MGRFILE, f"{MGR}.transfer_data", "data_locations.append(dst_data_location)\n            ", "", "R3"),
    V("transfer_data: copies never awaited", MGRFILE, f"{MGR}.transfer_data", "await asyncio.gather(*copy_tasks)\n    ", "", "R3"),
    V("transfer_data: gather after the availability loop", MGRFILE, f"{MGR}.transfer_data", "await asyncio.gather(*copy_tasks)\n    for data_location in data_locations:",
      "for data_location in data_locations:", "R3"),
    V("transfer_data: source copy not awaited", MGRFILE, f"{MGR}.transfer_data", "await primary_loc.available.wait()\n                ", "", "R3"),
    V("transfer_data: for-else dropped, every destination also gets the remote copy", MGRFILE, f"{MGR}.transfer_data",
      "                break\n        else:\n            remote_locations.append(dst_location)", "                break\n        remote_locations.append(dst_location)", "R3"),
    V("transfer_data: link/primary decision inverted", MGRFILE, f"{MGR}.transfer_data", "DataType.SYMBOLIC_LINK if await loc_path.is_symlink() else DataType.PRIMARY",
      "DataType.PRIMARY if await loc_path.is_symlink() else DataType.SYMBOLIC_LINK", "R3"),
    V("register_path: availability loop dropped", MGRFILE, f"{MGR}.register_path", "for loc in data_locations:\n        loc.available.set()\n    ", "", "R3"),
    V("register_path: early return before the availability loop", MGRFILE, f"{MGR}.register_path",
      "for loc in data_locations:\n        loc.available.set()", "if len(data_locations) == 1:\n        return data_locations[0]\n    for loc in data_locations:\n        loc.available.set()", "R3"),
    V("DataLocation.__init__: `available` defaults to True (transfer_data relies on the default for the in-flight destination)", "streamflow/core/data.py",
      f"{DLOC}.__init__", "available: bool=False", "available: bool=True", "R3"),
    V("transfer_data: destination registered before the copy is created available explicitly", MGRFILE, f"{MGR}.transfer_data",
      "relpath=src_data_location.relpath, data_type=DataType.PRIMARY)", "relpath=src_data_location.relpath, data_type=DataType.PRIMARY, available=True)", "R3"),
    V("transfer_data: destination created available through a temporary, positionally", MGRFILE, f"{MGR}.transfer_data",
      "dst_data_location = DataLocation(location=dst_location, path=str(loc_dst_path), relpath=src_data_location.relpath, data_type=DataType.PRIMARY)",
      "ready = True\n            dst_data_location = DataLocation(dst_location, str(loc_dst_path), src_data_location.relpath, DataType.PRIMARY, ready)", "R3"),
    V("register_path: first location held in a local and registered, but the collection starts empty", MGRFILE, f"{MGR}.register_path",
      f"data_locations = [{_RP_FIRST}]\n    self.path_mapper.put(path=path, data_location=data_locations[0], recursive=True)",
      f"outer_data_location = {_RP_FIRST}\n    data_locations = []\n    self.path_mapper.put(path=path, data_location=outer_data_location, recursive=True)", "R3"),
    V("register_path: inner location held in a local and registered, never appended", MGRFILE, f"{MGR}.register_path",
      f"data_locations.append({_RP_INNER})\n        self.path_mapper.put(path=str(path), data_location=data_locations[-1], recursive=True)",
      f"inner_data_location = {_RP_INNER}\n        self.path_mapper.put(path=str(path), data_location=inner_data_location, recursive=True)", "R3"),
    V("register_path: collection bound anew before the availability loop", MGRFILE, f"{MGR}.register_path",
      "for loc in data_locations:\n        loc.available.set()", "data_locations = data_locations[1:]\n    for loc in data_locations:\n        loc.available.set()", "R3"),
    V("register_path: collection emptied before the availability loop (named first location)", MGRFILE, f"{MGR}.register_path",
      f"data_locations = [{_RP_FIRST}]\n    self.path_mapper.put(path=path, data_location=data_locations[0], recursive=True)",
      f"outer_data_location = {_RP_FIRST}\n    data_locations = [outer_data_location]\n    self.path_mapper.put(path=path, data_location=outer_data_location, recursive=True)\n    data_locations.clear()", "R3"),
    V("register_path: availability loop over the first element only", MGRFILE, f"{MGR}.register_path",
      "for loc in data_locations:\n        loc.available.set()", "for loc in data_locations[:1]:\n        loc.available.set()", "R3"),
    # ---- R4
    V("BaseConnector.copy_remote_to_remote: read_only negated", BASEFILE, f"{BC}.copy_remote_to_remote", "dst=dst, read_only=read_only)", "dst=dst, read_only=not read_only)", "R4", control=True),
    V("wrapper: read_only forced to True", "streamflow/deployment/wrapper.py", "streamflow.deployment.wrapper.ConnectorWrapper.copy_remote_to_local",
      "read_only=read_only", "read_only=True", "R4"),
    V("copy_same_connector: link for writable transfers", BASEFILE, f"{BASE}.copy_same_connector", "['ln', '-snf'] if read_only else ['/bin/cp', '-rf']", "['/bin/cp', '-rf'] if read_only else ['ln', '-snf']", "R4"),
    V("copy_same_connector: non-recursive copy", BASEFILE, f"{BASE}.copy_same_connector", "['/bin/cp', '-rf']", "['/bin/cp', '-f']", "R4"),
    V("copy_same_connector: operands swapped", BASEFILE, f"{BASE}.copy_same_connector", "+ [shlex.quote(src), shlex.quote(dst)]", "+ [shlex.quote(dst), shlex.quote(src)]", "R4"),
    V("copy_same_connector: operands swapped through quoted temporaries", BASEFILE, f"{BASE}.copy_same_connector",
      "await connector.run(location=location, command=(['ln', '-snf'] if read_only else ['/bin/cp', '-rf']) + [shlex.quote(src), shlex.quote(dst)])",
      "qa = shlex.quote(dst)\n                qb = shlex.quote(src)\n                await connector.run(location=location, command=(['ln', '-snf'] if read_only else ['/bin/cp', '-rf']) + [qa, qb])", "R4"),
    V("copy_same_connector: shlex.quote dropped from the operands", BASEFILE, f"{BASE}.copy_same_connector", "+ [shlex.quote(src), shlex.quote(dst)]", "+ [src, dst]", "R1"),
    V("_local_copy: symlink operands swapped", LOCALFILE, f"{LOCAL}._local_copy", "os.symlink(src, dst,", "os.symlink(dst, src,", "R4"),
    V("_local_copy: copyfile loses the mode", LOCALFILE, f"{LOCAL}._local_copy", "shutil.copy(src, dst)", "shutil.copyfile(src, dst)", "R4"),
    V("_local_copy: inverted read_only test", LOCALFILE, f"{LOCAL}._local_copy", "if read_only:", "if not read_only:", "R4"),
    V("LocalConnector: positional read_only replaced", LOCALFILE, f"{LOCAL}.LocalConnector.copy_remote_to_local", "_local_copy(src, dst, read_only)", "_local_copy(src, dst, True)", "R4"),
    V("get_remote_to_remote_write_command: extraction directory of the same-basename branch unquoted", UTILSFILE, f"{UTILS}.get_remote_to_remote_write_command",
      "return ['tar', 'xpf', '-', '-C', shlex.quote(posixpath.dirname(dst))]", "return ['tar', 'xpf', '-', '-C', posixpath.dirname(dst)]", "R1"),
    # ---- R5
    V("_local_copy: writable tree copy keeps symlinks (symlinks=True)", LOCALFILE, f"{LOCAL}._local_copy", "shutil.copytree(src, dst, dirs_exist_ok=True)",
      "shutil.copytree(src, dst, symlinks=True, dirs_exist_ok=True)", "R5"),
    V("_local_copy: symlinks passed positionally", LOCALFILE, f"{LOCAL}._local_copy", "shutil.copytree(src, dst, dirs_exist_ok=True)",
      "shutil.copytree(src, dst, True, dirs_exist_ok=True)", "R5"),
    V("_local_copy: symlinks=True through a temporary", LOCALFILE, f"{LOCAL}._local_copy", "shutil.copytree(src, dst, dirs_exist_ok=True)",
      "keep = True\n        shutil.copytree(src, dst, dirs_exist_ok=True, symlinks=keep)", "R5"),
    V("_local_copy: symlinks=not read_only on the writable branch", LOCALFILE, f"{LOCAL}._local_copy", "shutil.copytree(src, dst, dirs_exist_ok=True)",
      "shutil.copytree(src, dst, symlinks=not read_only, dirs_exist_ok=True)", "R5"),
    V("_local_copy: file copy does not follow links", LOCALFILE, f"{LOCAL}._local_copy", "shutil.copy(src, dst)", "shutil.copy(src, dst, follow_symlinks=False)", "R5"),
    V("BaseConnector.copy_remote_to_local: tar reader without h", BASEFILE, f"{BC}.copy_remote_to_local", "reader_command=['tar', 'chf', '-',", "reader_command=['tar', 'cf', '-',", "R5"),
    V("copy_remote_to_remote helper: default tar reader without h", BASEFILE, f"{BASE}.copy_remote_to_remote", "reader_command = ['tar', 'chf', '-',", "reader_command = ['tar', '-cf', '-',", "R5"),
    V("copy_local_to_remote helper: tar writer relies on the dereference default", BASEFILE, f"{BASE}.copy_local_to_remote", "mode='w', dereference=True,", "mode='w',", "R5"),
    V("copy_local_to_remote helper: dereference=False", BASEFILE, f"{BASE}.copy_local_to_remote", "dereference=True", "dereference=False", "R5"),
    # ---- R6
    V("get_remote_to_remote_write_command: `test -d <src>` probed on the destination connector/location", UTILSFILE, f"{UTILS}.get_remote_to_remote_write_command",
      "is_src_dir, status = await src_connector.run(location=src_location,", "is_src_dir, status = await dst_connector.run(location=dst_locations[0],", "R6", control=True),
    V("get_remote_to_remote_write_command: source probe on the destination connector only", UTILSFILE, f"{UTILS}.get_remote_to_remote_write_command",
      "is_src_dir, status = await src_connector.run(", "is_src_dir, status = await dst_connector.run(", "R6"),
    V("get_remote_to_remote_write_command: source probe on a destination location through a temporary", UTILSFILE, f"{UTILS}.get_remote_to_remote_write_command",
      "is_src_dir, status = await src_connector.run(location=src_location,", "where = next(iter(dst_locations))\n        is_src_dir, status = await src_connector.run(location=where,", "R6"),
    V("get_remote_to_remote_write_command: destination probe asks about the source path", UTILSFILE, f"{UTILS}.get_remote_to_remote_write_command",
      "is_dst_dir, status = await dst_connector.run(location=dst_locations[0], command=['test', '-d', shlex.quote(dst)]",
      "is_dst_dir, status = await dst_connector.run(location=dst_locations[0], command=['test', '-d', shlex.quote(src)]", "R6"),
    V("get_remote_to_remote_write_command: mkdir of the destination issued on the source side", UTILSFILE, f"{UTILS}.get_remote_to_remote_write_command",
      "asyncio.create_task(dst_connector.run(location=dst_location, command=['mkdir', '-p', shlex.quote(dst)])) for dst_location in dst_locations",
      "asyncio.create_task(src_connector.run(location=src_location, command=['mkdir', '-p', shlex.quote(dst)])) for dst_location in dst_locations", "R6"),
    V("get_local_to_remote_destination: destination probe asks about the (local) source path", UTILSFILE, f"{UTILS}.get_local_to_remote_destination",
      "command=['test', '-d', shlex.quote(dst)]", "command=['test', '-d', shlex.quote(src)]", "R6"),
    V("copy_remote_to_remote helper: tar reader opened on the destination", BASEFILE, f"{BASE}.copy_remote_to_remote",
      "async with await source_connector.get_stream_reader(command=reader_command, location=source_location) as reader:",
      "async with await connector.get_stream_reader(command=reader_command, location=locations[0]) as reader:", "R6"),
    V("copy_remote_to_remote helper: writers opened on the source location", BASEFILE, f"{BASE}.copy_remote_to_remote",
      "connector.get_stream_writer(command=writer_command, location=location)", "connector.get_stream_writer(command=writer_command, location=source_location)", "R6"),
    V("copy_remote_to_remote helper: sides crossed when asking for the writer command", BASEFILE, f"{BASE}.copy_remote_to_remote",
      "src_connector=source_connector, src_location=source_location, src=src, dst_connector=connector, dst_locations=locations, dst=dst",
      "src_connector=connector, src_location=locations[0], src=src, dst_connector=connector, dst_locations=locations, dst=dst", "R6"),
    # ---- R7
    V("get_remote_to_remote_write_command: mkdir of the destination on the first destination location only (seeded C22/1)", UTILSFILE, _W, _MKDIR_ALL,
      "await dst_connector.run(location=dst_locations[0], command=['mkdir', '-p', shlex.quote(dst)])", "R7", control=True),
    V("get_remote_to_remote_write_command: mkdir fan-out over a one-element slice", UTILSFILE, _W, "for dst_location in dst_locations))", "for dst_location in dst_locations[:1]))", "R7"),
    V("get_remote_to_remote_write_command: mkdir on a representative location held in a temporary, command in a local", UTILSFILE, _W, _MKDIR_ALL,
      "first = next(iter(dst_locations))\n            make_dir = ['mkdir', '-p', shlex.quote(dst)]\n            await dst_connector.run(location=first, command=make_dir)", "R7"),
    V("get_remote_to_remote_write_command: statement loop left after the first mkdir", UTILSFILE, _W, _MKDIR_ALL,
      "for dst_location in dst_locations:\n                await dst_connector.run(location=dst_location, command=['mkdir', '-p', shlex.quote(dst)])\n                break", "R7"),
    V("get_remote_to_remote_write_command: mkdir moved into a per-location helper that is called for the first location only", UTILSFILE, _W, _MKDIR_ALL,
      "await _make_destination(dst_connector, dst_locations[0], dst)", "R7",
      append="async def _make_destination(connector, location, path):\n    await connector.run(location=location, command=['mkdir', '-p', shlex.quote(path)])\n"),
    V("get_remote_to_remote_write_command: mkdir moved into a helper that receives every location but serves the first", UTILSFILE, _W, _MKDIR_ALL,
      "await _make_destinations(dst_connector, dst_locations, dst)", "R7",
      append="async def _make_destinations(connector, targets, path):\n    await connector.run(location=targets[0], command=['mkdir', '-p', shlex.quote(path)])\n"),
    V("copy_remote_to_remote helper: a tar writer is opened on the first destination only", BASEFILE, f"{BASE}.copy_remote_to_remote",
      "connector.get_stream_writer(command=writer_command, location=location)) for location in locations))",
      "connector.get_stream_writer(command=writer_command, location=location)) for location in locations[:1]))", "R7"),
    V("BaseConnector.copy_local_to_remote: the archive is sent to the first location only", BASEFILE, f"{BC}.copy_local_to_remote",
      "await asyncio.gather(*(asyncio.create_task(copy_local_to_remote(connector=self, location=location, src=src, dst=dst, writer_command=['tar', 'xpf', '-', '-C', '/'])) for location in locations))",
      "await copy_local_to_remote(connector=self, location=locations[0], src=src, dst=dst, writer_command=['tar', 'xpf', '-', '-C', '/'])", "R7"),
    V("BaseConnector.copy_remote_to_remote: only the first remaining location is handed to the stream copy", BASEFILE, f"{BC}.copy_remote_to_remote",
      "await copy_remote_to_remote(connector=self, locations=locations,", "await copy_remote_to_remote(connector=self, locations=locations[:1],", "R7"),
    V("copy_remote_to_remote helper: the writer command is prepared for the last destination only", BASEFILE, f"{BASE}.copy_remote_to_remote",
      "dst_connector=connector, dst_locations=locations, dst=dst", "dst_connector=connector, dst_locations=[locations[-1]], dst=dst", "R7"),
    # ---- benign
    V("benign: mkdir awaited one location after the other", UTILSFILE, _W, _MKDIR_ALL,
      "for target in dst_locations:\n                await dst_connector.run(location=target, command=['mkdir', '-p', shlex.quote(dst)])", None),
    V("benign: mkdir over an index range / enumerate of a copy of the destinations", UTILSFILE, _W, _MKDIR_ALL,
      "targets = list(dst_locations)\n            for i in range(len(targets)):\n                await dst_connector.run(location=targets[i], command=['mkdir', '-p', shlex.quote(dst)])\n"
      "            for _n, again in enumerate(sorted(dst_locations)):\n                await dst_connector.run(location=again, command=['mkdir', '-p', shlex.quote(dst)])", None),
    V("benign: mkdir moved into a helper that serves every location it receives", UTILSFILE, _W, _MKDIR_ALL,
      "await _make_destinations(dst_connector, dst_locations, dst)", None,
      append="async def _make_destinations(connector, targets, path):\n    make_dir = ['mkdir', '-p', shlex.quote(path)]\n"
             "    await asyncio.gather(*(asyncio.create_task(_make_destination(connector, target, make_dir)) for target in targets))\n\n\n"
             "async def _make_destination(connector, location, command):\n    await connector.run(location=location, command=command)\n"),
    V("benign: one more read-only probe of the representative destination location", UTILSFILE, _W,
      "if status > 1:\n        raise WorkflowExecutionException(is_dst_dir)",
      "await dst_connector.run(location=dst_locations[0], command=['stat', shlex.quote(dst)], capture_output=True)\n    if status > 1:\n        raise WorkflowExecutionException(is_dst_dir)", None),
    V("benign: one stream copy per remaining location (`locations=[one]` for every `one`)", BASEFILE, f"{BC}.copy_remote_to_remote",
      "await copy_remote_to_remote(connector=self, locations=locations, src=src, dst=dst, source_connector=source_connector, source_location=source_location)",
      "for one in locations:\n            await copy_remote_to_remote(connector=self, locations=[one], src=src, dst=dst, source_connector=source_connector, source_location=source_location)", None),
    V("benign: tar writers opened in a statement loop over an alias of the destinations", BASEFILE, f"{BASE}.copy_remote_to_remote",
      "write_contexts = await asyncio.gather(*(asyncio.create_task(connector.get_stream_writer(command=writer_command, location=location)) for location in locations))",
      "targets = locations\n        opening = []\n        for target in targets:\n            opening.append(asyncio.create_task(connector.get_stream_writer(command=writer_command, location=target)))\n"
      "        write_contexts = await asyncio.gather(*opening)", None),
    V("benign: transfer_data spells the constructor default out", MGRFILE, f"{MGR}.transfer_data",
      "relpath=src_data_location.relpath, data_type=DataType.PRIMARY)", "relpath=src_data_location.relpath, data_type=DataType.PRIMARY, available=False)", None),
    V("benign: source probe through connector/location/operand temporaries", UTILSFILE, f"{UTILS}.get_remote_to_remote_write_command",
      "is_src_dir, status = await src_connector.run(location=src_location, command=['test', '-d', shlex.quote(src)], capture_output=True)",
      "probe_on = src_connector\n        where = src_location\n        quoted = shlex.quote(src)\n        probe = ['test', '-d', quoted]\n        is_src_dir, status = await probe_on.run(location=where, command=probe, capture_output=True)", None),
    V("benign: destination probe on next(iter(dst_locations))", UTILSFILE, f"{UTILS}.get_remote_to_remote_write_command",
      "is_dst_dir, status = await dst_connector.run(location=dst_locations[0],", "first = next(iter(dst_locations))\n    is_dst_dir, status = await dst_connector.run(location=first,", None),
    V("benign: mkdir tasks built in a statement loop", UTILSFILE, f"{UTILS}.get_remote_to_remote_write_command",
      "await asyncio.gather(*(asyncio.create_task(dst_connector.run(location=dst_location, command=['mkdir', '-p', shlex.quote(dst)])) for dst_location in dst_locations))",
      "tasks = []\n            for target in dst_locations:\n                tasks.append(asyncio.create_task(dst_connector.run(location=target, command=['mkdir', '-p', shlex.quote(dst)])))\n            await asyncio.gather(*tasks)", None),
    V("benign: log line mentions both sides", BASEFILE, f"{BASE}.copy_remote_to_remote",
      "if writer_command is None:", "logger.debug('from %s to %s (%s)', src, dst, source_location)\n    if writer_command is None:", None),
    V("benign: copytree with the default spelled out", LOCALFILE, f"{LOCAL}._local_copy", "shutil.copytree(src, dst, dirs_exist_ok=True)",
      "shutil.copytree(src, dst, symlinks=False, dirs_exist_ok=True)", None),
    V("benign: copytree symlinks=read_only on the writable branch (false there)", LOCALFILE, f"{LOCAL}._local_copy", "shutil.copytree(src, dst, dirs_exist_ok=True)",
      "shutil.copytree(src, dst, symlinks=read_only, dirs_exist_ok=True)", None),
    V("benign: shutil.copy follow_symlinks=True through a temporary", LOCALFILE, f"{LOCAL}._local_copy", "shutil.copy(src, dst)", "follow = True\n        shutil.copy(src, dst, follow_symlinks=follow)", None),
    V("benign: tar reader flags reordered with a dash", BASEFILE, f"{BC}.copy_remote_to_local", "reader_command=['tar', 'chf', '-',", "reader_command=['tar', '-hcf', '-',", None),
    V("benign: tar reader with long options", BASEFILE, f"{BASE}.copy_remote_to_remote", "reader_command = ['tar', 'chf', '-',", "reader_command = ['tar', '--create', '--dereference', '--file', '-',", None),
    V("benign: dereference=True through a temporary, keywords reordered", BASEFILE, f"{BASE}.copy_local_to_remote",
      "async with aiotarstream.open(stream=writer, format=tarfile.GNU_FORMAT, mode='w', dereference=True, copybufsize=connector.transferBufferSize) as tar:",
      "follow_links = True\n            async with aiotarstream.open(stream=writer, dereference=follow_links, mode='w', format=tarfile.GNU_FORMAT, copybufsize=connector.transferBufferSize) as tar:", None),
    V("benign: dst quoted into a local first", UTILSFILE, f"{UTILS}.get_local_to_remote_destination",
      "is_dst_dir, status = await dst_connector.run(location=dst_location, command=['test', '-d', shlex.quote(dst)], capture_output=True)",
      "qdst = shlex.quote(dst)\n    is_dst_dir, status = await dst_connector.run(location=dst_location, command=['test', '-d', qdst], capture_output=True)", None),
    V("benign: copy_same_connector quotes its operands into locals first", BASEFILE, f"{BASE}.copy_same_connector",
      "await connector.run(location=location, command=(['ln', '-snf'] if read_only else ['/bin/cp', '-rf']) + [shlex.quote(src), shlex.quote(dst)])",
      "qa = shlex.quote(src)\n                qb = shlex.quote(str(dst))\n                await connector.run(location=location, command=(['ln', '-snf'] if read_only else ['/bin/cp', '-rf']) + [qa, qb])", None),
    V("benign: writer command of the same-basename branch quoted through a local", UTILSFILE, f"{UTILS}.get_remote_to_remote_write_command",
      "return ['tar', 'xpf', '-', '-C', shlex.quote(posixpath.dirname(dst))]", "parent = shlex.quote(posixpath.dirname(dst))\n        return ['tar', 'xpf', '-', '-C', parent]", None),
    V("benign: reader command quoted through a generator", BASEFILE, f"{BC}.copy_remote_to_local", "*posixpath.split(src)]", "*(shlex.quote(p) for p in posixpath.split(src))]", None),
    V("benign: _copy computes read_only once", MGRFILE, f"{MGRMOD}._copy",
      "if src_location.local:\n        await dst_connector.copy_local_to_remote(src=src, dst=dst, locations=dst_locations, read_only=not writable)",
      "ro = not writable\n    if src_location.local:\n        await dst_connector.copy_local_to_remote(src=src, dst=dst, locations=dst_locations, read_only=ro)", None),
    V("benign: rename the availability loop variable + logging", MGRFILE, f"{MGR}.register_path", "for loc in data_locations:\n        loc.available.set()",
      "for registered in data_locations:\n        logger.debug('available')\n        registered.available.set()", None),
    V("benign: register_path names the first location (B9-5: `data_locations = [outer_data_location]`)", MGRFILE, f"{MGR}.register_path",
      f"data_locations = [{_RP_FIRST}]\n    self.path_mapper.put(path=path, data_location=data_locations[0], recursive=True)\n    self.context.checkpoint_manager.register(data_locations[0])",
      f"outer_data_location = {_RP_FIRST}\n    data_locations = [outer_data_location]\n    self.path_mapper.put(path=path, data_location=outer_data_location, recursive=True)\n"
      "    self.context.checkpoint_manager.register(outer_data_location)", None),
    V("benign: register_path names the inner location and its path (B9-5)", MGRFILE, f"{MGR}.register_path",
      f"data_locations.append({_RP_INNER})\n        self.path_mapper.put(path=str(path), data_location=data_locations[-1], recursive=True)\n"
      "        self.register_relation(src_location=data_locations[0], dst_location=data_locations[-1])",
      f"inner_path = str(path)\n        inner_data_location = {_RP_INNER_T}\n        data_locations.append(inner_data_location)\n"
      "        self.path_mapper.put(path=inner_path, data_location=inner_data_location, recursive=True)\n"
      "        self.register_relation(src_location=data_locations[0], dst_location=inner_data_location)", None),
    V("benign: register_path names the first location, registers it through the collection, starts the list with +=", MGRFILE, f"{MGR}.register_path",
      f"data_locations = [{_RP_FIRST}]\n    self.path_mapper.put(path=path, data_location=data_locations[0], recursive=True)",
      f"outer_data_location = {_RP_FIRST}\n    data_locations = []\n    data_locations += [outer_data_location]\n    first = data_locations[0]\n"
      "    self.path_mapper.put(path=path, data_location=first, recursive=True)", None),
    V("benign: availability loop over a reversed copy of the collection", MGRFILE, f"{MGR}.register_path",
      "for loc in data_locations:\n        loc.available.set()", "for loc in reversed(list(data_locations)):\n        loc.available.set()", None),
    V("benign: wrapper drops the keyword (full copy)", "streamflow/deployment/wrapper.py", "streamflow.deployment.wrapper.ConnectorWrapper.copy_remote_to_local",
      "location=location, read_only=read_only)", "location=location)", None),
    V("benign: _local_copy uses copy2", LOCALFILE, f"{LOCAL}._local_copy", "shutil.copy(src, dst)", "shutil.copy2(src, dst)", None),
]
