"""C24 Remote path operations agree with the local filesystem.

Clauses decided (necessary conditions, not the behaviour):
R1 every run-time operand of a shell command built by RemoteStreamFlowPath (and the
   `_size` helper behind `size()`) is shlex-quoted, numeric, or a declared payload;
R2 file content / listing results are not post-processed lossily (strip/split);
R3 operation/flag table: each predicate/mutator issues the POSIX command that has the
   pathlib meaning (`test -e|-d|-f|-L|-x`, `mkdir [-p]`, `rm -rf`, `ln -snf target link` ...)
   and `_test` maps exit status 0 -> True, 1 -> False, >1 -> error;
R4 delegation to the inner (wrapped) path calls the same operation with every argument.
"""

from __future__ import annotations

import ast
import itertools

from ..dataflow import defs_of, fragments, origins
from ..facts import atoms, edge_for, facts_at, key, region
from ..model import ancestors, unparse, walk_no_nested
from ..selftest import V
from ..shell import check_quoting, command_sinks

MOD = "streamflow.data.remotepath"
CLS = f"{MOD}.RemoteStreamFlowPath"
FILE = "streamflow/data/remotepath.py"

META = {
    "explanation": (
        "Static P9 quoting analysis over every command handed to connector.run/_test/get_stream_writer in "
        "RemoteStreamFlowPath and _size: command expressions are split by def-use into constant, quoted, numeric "
        "and dynamic fragments; a dynamic fragment that is not a declared payload is a violation. Plus: lossy "
        "post-processing of content, operation/flag table, delegation completeness. Decides necessary conditions "
        "only; equality of results with the local filesystem needs execution and is undecided."
    ),
    "undecided": "equality of results (needs execution)",
    "assumptions": ["connector.run joins list commands with spaces and hands them to a POSIX shell (create_command)"],
}

# declared payloads: values that are *meant* to be interpreted by the shell / are not path operands
TRUSTED = {
    "_test": {"command"},  # callers are checked at their own call sites
    "glob": {"pattern"},  # the glob pattern must stay active
}

FLAGS = {
    "exists": ["-e"],
    "is_dir": ["-d"],
    "is_file": ["-f"],
    "is_symlink": ["-L"],
    "is_executable": ["-x"],
    "mkdir": ["mkdir", "-m"],
    "rmtree": ["rm", "-rf"],
    "symlink_to": ["ln", "-snf"],
    "hardlink_to": ["ln", "-nf"],
    "chmod": ["chmod"],
    "checksum": ["sha1sum"],
    "resolve": ["readlink", "-f"],
    "glob": ["test", "-e", "printf"],
    "write_text": ["tee"],
    "read_text": ["cat", "head"],
    "size": ["find"],
}


def _methods(ctx):
    c = ctx.prog.cls(CLS)
    return [m for m in c.methods.values()]


def _deep_sinks(p, f, depth=2):
    """(call site in f, command expression, function the expression belongs to) for every command that f hands to the
    connector, directly or through a private helper of the same class it calls as self.<helper>(...): when the helper's
    command is one of its parameters, the expression is the argument at the call site in f (inlining bound 2)."""
    out = [(call, cmd, f) for call, cmd in command_sinks(f)]
    if depth == 0:
        return out
    for c in f.calls():
        if not (isinstance(c.func, ast.Attribute) and isinstance(c.func.value, ast.Name) and c.func.value.id == "self" and c.func.attr.startswith("_")):
            continue
        if c.func.attr in ("_test", "_get_inner_path"):
            continue
        for q in p.resolve_call(f, c, fanout=False):
            h = p.functions.get(q)
            if h is None or h is f or h.cls is None or f.cls is None or h.cls.qualname != f.cls.qualname:
                continue
            for _hc, cmd, owner in _deep_sinks(p, h, depth - 1):
                if owner is h and isinstance(cmd, ast.Name) and cmd.id in h.params:
                    a = h.node.args
                    pos = [x.arg for x in a.posonlyargs + a.args]
                    kw = {k.arg: k.value for k in c.keywords}
                    idx = pos.index(cmd.id) - 1 if cmd.id in pos else -1
                    arg = kw.get(cmd.id) if cmd.id in kw else (c.args[idx] if 0 <= idx < len(c.args) else None)
                    if arg is not None:
                        out.append((c, arg, f))
                        continue
                out.append((c, cmd, owner))
    return out


def r1(ctx):
    funcs = _methods(ctx) + [ctx.prog.func(f"{MOD}._size")]
    for f in funcs:
        for call, cmd in command_sinks(f):
            check_quoting(ctx, "R1", f, cmd, call, trusted=TRUSTED.get(f.name, set()))


LOSSY = {"strip", "lstrip", "rstrip", "split", "replace", "splitlines"}


def r2(ctx):
    p = ctx.prog
    f = p.func(f"{CLS}.read_text")
    rets = [n for n in f.body_nodes() if isinstance(n, ast.Return) and n.value is not None]
    ctx.require(len(rets) >= 2, "C24.R2: read_text lost its return statements")
    for r in rets:
        for o in origins(f, r.value):
            if isinstance(o, ast.Await):
                o = o.value
            # the delegating return is checked by R4
            if isinstance(o, ast.Call) and isinstance(o.func, ast.Attribute) and o.func.attr == "read_text":
                continue
            lossy = isinstance(o, ast.Call) and isinstance(o.func, ast.Attribute) and o.func.attr in LOSSY
            ctx.ob(
                "R2",
                "read_text returns the command output unmodified",
                not lossy,
                func=f,
                node=r,
                instance="read_text:return",
                message=f"file content is post-processed with `{unparse(o)}` (leading/trailing whitespace is lost)",
            )
    g = p.func(f"{CLS}.glob")
    loops = [n for n in g.body_nodes() if isinstance(n, ast.For)]
    found = False
    for lp in loops:
        it = lp.iter
        if isinstance(it, ast.Call) and isinstance(it.func, ast.Attribute) and it.func.attr in ("split", "splitlines"):
            found = True
            ws_split = it.func.attr == "split" and not it.args and not it.keywords
            ctx.ob(
                "R2",
                "glob separates results on the record separator only",
                not ws_split,
                func=g,
                node=lp,
                instance="glob:split",
                message="glob results are split on any whitespace: names containing spaces are broken up",
            )
    ctx.require(found, "C24.R2: glob result loop not found")
    # write_text answers like pathlib: the number of characters of the text it was given
    f = p.func(f"{CLS}.write_text")
    data = next((a for a in f.params if a not in ("self",)), "data")
    n_own = 0
    for r in [n for n in f.body_nodes() if isinstance(n, ast.Return) and n.value is not None]:
        for o in origins(f, r.value):
            if isinstance(o, ast.Await):
                o = o.value
            if isinstance(o, ast.Call) and isinstance(o.func, ast.Attribute) and o.func.attr == "write_text":
                continue  # delegation (R4)
            n_own += 1
            ok = isinstance(o, ast.Call) and unparse(o.func) == "len" and len(o.args) == 1 and unparse(o.args[0]) == data
            ctx.ob("R2", "write_text returns the number of characters of the given text", ok, func=f, node=r, instance="write_text:return",
                   message=f"write_text returns `{unparse(o)[:80]}` instead of len({data}): the local path returns the character count (a byte count differs for "
                           "every non-ASCII text)")
    ctx.require(n_own >= 1, "C24.R2: write_text has no return of its own")
    # walk: the names it yields are relative to the directory being listed, for directories and files alike
    from ..dataflow import _param_args

    wk = p.func(f"{CLS}.walk")
    listed = set()
    for call, cmd in command_sinks(wk):
        for fr in fragments(p, wk, cmd):
            if fr.kind == "quoted" and fr.expr is not None:
                for x in ast.walk(fr.expr):
                    if isinstance(x, ast.Name) and x.id not in ("shlex", "str", "quote"):
                        listed.add(x.id)
    bases = []
    helpers = [wk]
    for c in wk.calls():
        if isinstance(c.func, ast.Attribute) and isinstance(c.func.value, ast.Name) and c.func.value.id == "self":
            for q in p.resolve_call(wk, c, fanout=False):
                h = p.functions.get(q)
                if h is not None and h.name.startswith("_") and h not in helpers:
                    helpers.append(h)
    for h in helpers:
        for c in h.calls():
            if isinstance(c.func, ast.Attribute) and c.func.attr == "relative_to" and len(c.args) == 1:
                a = c.args[0]
                if h is wk:
                    bases.append((c, unparse(a)))
                elif isinstance(a, ast.Name) and a.id in h.params and (b := _param_args(p, h, a.id)) is not None:
                    bases.extend((c, unparse(e)) for g_, e in b if g_ is wk)
                else:
                    bases.append((c, f"{h.name}:{unparse(a)}"))
    ok = len(bases) >= 2 and len({b for _c, b in bases}) == 1 and (not listed or {b for _c, b in bases} <= listed)
    ctx.ob("R2", "walk yields directory and file names relative to the directory it listed", ok, func=wk, node=bases[0][0] if bases else wk.node,
           instance="walk:relative-names",
           message=f"walk computes child names relative to {sorted({b for _c, b in bases})} while the `find` command lists {sorted(listed)}: below the root the "
                   "names become multi-component paths and the descent enters directories that do not exist")


def _inner_vars(f):
    """Locals bound to `await self._get_inner_path()` (walrus or plain assignment)."""
    out = set()
    for n in f.body_nodes():
        if isinstance(n, ast.NamedExpr) and "_get_inner_path" in unparse(n.value):
            out.add(n.target.id)
        elif isinstance(n, ast.Assign) and len(n.targets) == 1 and isinstance(n.targets[0], ast.Name) and "_get_inner_path" in unparse(n.value):
            out.add(n.targets[0].id)
    return out


def _delegation(f):
    """(test node, edge kind leading to the delegating side, inner-path variable) of the `inner path is another object`
    test of f, however it is spelled (`!=`/`==`, negations, swapped branches, guard clause, walrus or temporary)."""
    g = f.cfg
    vs = _inner_vars(f)
    for t in g.nodes.values():
        if t.kind != "test" or t.ast is None:
            continue
        for v in vs:
            def pred(atom, truth, v=v):
                return (not truth and isinstance(atom, ast.Compare) and len(atom.ops) == 1 and isinstance(atom.ops[0], (ast.Eq, ast.Is))
                        and {key(atom.left), key(atom.comparators[0])} == {v, "self"})
            k = edge_for(t.ast, pred)
            if k:
                return t, k, v
    return None


def _flag_conditions(f, flag):
    """Governing condition (as an AST, polarity folded in) of every occurrence of the constant word `flag` in f."""
    out = []
    for n in f.body_nodes():
        if not (isinstance(n, ast.Constant) and n.value == flag):
            continue
        cond = None
        child = n
        for a in ancestors(n):
            if isinstance(a, (ast.FunctionDef, ast.AsyncFunctionDef)):
                break
            t = None
            if isinstance(a, ast.IfExp):
                if child is a.body:
                    t = a.test
                elif child is a.orelse:
                    t = ast.UnaryOp(op=ast.Not(), operand=a.test)
            elif isinstance(a, ast.If):
                if any(child is s for s in a.body):
                    t = a.test
                elif any(child is s for s in a.orelse):
                    t = ast.UnaryOp(op=ast.Not(), operand=a.test)
            if t is not None and "_get_inner_path" not in unparse(t) and not ({x.id for x in ast.walk(t) if isinstance(x, ast.Name)} & _inner_vars(f)):
                cond = t if cond is None else ast.BoolOp(op=ast.And(), values=[t, cond])
            child = a
        out.append(cond if cond is not None else ast.Constant(value=True))
    return out


def _bool_eval(f, e, env, depth=4):
    if isinstance(e, ast.Constant) and isinstance(e.value, bool):
        return e.value
    if isinstance(e, ast.Name):
        if e.id in env:
            return env[e.id]
        ds = [d for d in defs_of(f, e.id)]
        if depth and len(ds) == 1 and ds[0].kind in ("assign", "walrus") and ds[0].value is not None and ds[0].index is None:
            return _bool_eval(f, ds[0].value, env, depth - 1)
        raise ValueError(e.id)
    if isinstance(e, ast.NamedExpr):
        return _bool_eval(f, e.value, env, depth)
    if isinstance(e, ast.UnaryOp) and isinstance(e.op, ast.Not):
        return not _bool_eval(f, e.operand, env, depth)
    if isinstance(e, ast.BoolOp):
        vs = [_bool_eval(f, v, env, depth) for v in e.values]
        return all(vs) if isinstance(e.op, ast.And) else any(vs)
    if isinstance(e, ast.Compare) and len(e.ops) == 1 and isinstance(e.comparators[0], ast.Constant) and isinstance(e.comparators[0].value, bool):
        l, r = _bool_eval(f, e.left, env, depth), e.comparators[0].value
        if isinstance(e.ops[0], (ast.Is, ast.Eq)):
            return l == r
        if isinstance(e.ops[0], (ast.IsNot, ast.NotEq)):
            return l != r
    raise ValueError(unparse(e)[:60])


def r3(ctx):
    p = ctx.prog
    c = p.cls(CLS)
    for name, want in FLAGS.items():
        f = c.methods.get(name)
        ctx.require(f is not None, f"C24.R3: method {name} vanished")
        consts = []
        sinks = _deep_sinks(p, f)
        ctx.require(bool(sinks), f"C24.R3: {name} issues no command")
        for call, cmd, owner in sinks:
            for fr in fragments(p, owner, cmd):
                if fr.kind == "const":
                    consts.append(ast.literal_eval(fr.text))
        words = set()
        for s in consts:
            if isinstance(s, str):
                words.update(s.split())
        missing = [w for w in want if w not in words]
        ctx.ob(
            "R3",
            f"{name} issues {' '.join(want)}",
            not missing,
            func=f,
            node=f.node,
            instance=f"{name}:flags",
            message=f"{name} no longer issues {missing} (constant words: {sorted(words)})",
        )
    # every non-delegating path of an operation issues its command (no silent short cut)
    for name in FLAGS:
        if name == "resolve":
            continue  # answered from the data-location registry first (symbolic links known to the engine); the command is the fall-back
        f = c.methods[name]
        g = f.cfg
        sink_ids = set()
        for call, _cmd, _owner in _deep_sinks(p, f):
            sink_ids.update(g.node_containing(call))
        dl = _delegation(f)
        starts = g.real_succ(dl[0].id, "f" if dl[1] == "t" else "t") if dl else [g.entry]
        esc = None
        for b in starts:
            if b in sink_ids:
                continue
            esc = esc or g.path(b, [g.exit], avoid=sink_ids)
        ctx.ob("R3", f"{name}: every path on the remote side issues the command", esc is None, func=f, node=f.node, instance=f"{name}:always-issues",
               message=f"{name} can return without issuing its remote command (a short cut that the local filesystem operation does not have)",
               witness=g.describe(esc) if esc else [])
    # walk() descends through _make_child_relpath(name): the child's name must reach the returned path
    mk = c.methods.get("_make_child_relpath")
    ctx.require(mk is not None, "C24.R3: _make_child_relpath vanished")
    prm = [a_ for a_ in mk.params if a_ != "self"]
    rets = [n for n in mk.body_nodes() if isinstance(n, ast.Return) and n.value is not None]
    flows = False
    for r_ in rets:
        for o in origins(mk, r_.value):
            names = {x.id for x in ast.walk(o) if isinstance(x, ast.Name)}
            pend = set(names)
            seen = set()
            while pend:
                nm = pend.pop()
                if nm in seen:
                    continue
                seen.add(nm)
                if nm in prm:
                    flows = True
                from ..dataflow import defs_of as _defs

                for d in _defs(mk, nm):
                    if d.value is not None:
                        pend |= {x.id for x in ast.walk(d.value) if isinstance(x, ast.Name)}
    ctx.ob("R3", "_make_child_relpath builds the child path from the child's name", flows and len(prm) == 1, func=mk, node=mk.node, instance="_make_child_relpath:uses-name",
           message="_make_child_relpath ignores the child name and returns the directory itself: walk() visits the same directory for ever")
    wk = c.methods.get("walk")
    uses = wk is not None and any(isinstance(x.func, ast.Attribute) and x.func.attr == "_make_child_relpath" for x in wk.calls())
    ctx.ob("R3", "walk descends into sub-directories through the child-path helper", bool(uses), func=wk or mk, node=(wk or mk).node, instance="walk:descends")
    # conditional flags: the flag word is issued exactly under the stated condition over the method's parameters
    # (statement `if`, conditional expression, either polarity, through temporaries; truth table over the parameters)
    for meth, flag, params, want, why in (
        ("mkdir", "-p", ("parents", "exist_ok"), lambda v: v["parents"] or v["exist_ok"], "parents or exist_ok"),
        ("chmod", "-h", ("follow_symlinks",), lambda v: not v["follow_symlinks"], "not follow_symlinks"),
    ):
        f = c.methods[meth]
        conds = _flag_conditions(f, flag)
        reaches = any(fr.kind == "const" and flag in str(ast.literal_eval(fr.text)).split() for _c, cmd, owner in _deep_sinks(p, f) for fr in fragments(p, owner, cmd))
        ok = bool(conds) and reaches
        detail = "" if reaches else "the flag word never reaches the command"
        for cond in conds:
            for vals in itertools.product((False, True), repeat=len(params)):
                env = dict(zip(params, vals))
                try:
                    got = _bool_eval(f, cond, env)
                except ValueError as e:
                    ok, detail = False, f"condition not interpretable over {params}: {e}"
                    break
                if bool(got) != bool(want(env)):
                    ok, detail = False, f"with {env} the flag is {'issued' if got else 'omitted'}"
                    break
        ctx.ob("R3", f"{meth} adds {flag} iff {why}", ok, func=f, node=f.node, instance=f"{meth}:{flag}",
               message=f"{meth} does not issue `{flag}` exactly when `{why}`" + (f" ({detail})" if detail else ""))
    # symlink_to/hardlink_to: target precedes link name
    for name in ("symlink_to", "hardlink_to"):
        f = c.methods[name]
        for call, cmd, owner in _deep_sinks(p, f):
            frs = [fr for fr in fragments(p, owner, cmd) if fr.kind in ("dyn", "quoted")]
            texts = [fr.text for fr in frs]
            ti = [i for i, t in enumerate(texts) if "target" in t]
            si = [i for i, t in enumerate(texts) if "self" in t]
            ctx.ob(
                "R3",
                f"{name}: ln <target> <link> operand order",
                bool(ti) and bool(si) and max(ti) < min(si),
                func=f,
                node=call,
                instance=f"{name}:order",
                message=f"{name}: operands are not in `target link` order: {texts}",
            )
    # _test: status mapping
    f = c.methods["_test"]
    from ..roles import tuple_vars_from

    st = [t[1] for t in tuple_vars_from(f, lambda e: isinstance(e, ast.Call) and unparse(e.func).endswith("connector.run")) if len(t) == 2 and t[1]]
    ST = st[0] if st else "status"
    rets = [n for n in f.body_nodes() if isinstance(n, ast.Return) and n.value is not None]
    ok_ret = any(
        isinstance(o, ast.UnaryOp) and isinstance(o.op, ast.Not) and unparse(o.operand) == ST
        for r in rets for o in origins(f, r.value)
    )
    # a raise that is reached exactly when the status is greater than 1 (however the test is spelled)
    g = f.cfg

    def _gt1(atom, truth):
        if not (isinstance(atom, ast.Compare) and len(atom.ops) == 1):
            return False
        l, op, r = unparse(atom.left), atom.ops[0], unparse(atom.comparators[0])
        if l == ST:
            return (truth and ((isinstance(op, ast.Gt) and r == "1") or (isinstance(op, ast.GtE) and r == "2"))) or \
                   (not truth and ((isinstance(op, ast.LtE) and r == "1") or (isinstance(op, ast.Lt) and r == "2")))
        if r == ST:
            return (truth and ((isinstance(op, ast.Lt) and l == "1") or (isinstance(op, ast.LtE) and l == "2"))) or \
                   (not truth and ((isinstance(op, ast.GtE) and l == "1") or (isinstance(op, ast.Gt) and l == "2")))
        return False

    ok_raise = any(n.kind == "raise_stmt" and any(_gt1(a, v) for a, v in facts_at(g, n.id)) for n in g.nodes.values())
    ctx.ob("R3", "_test returns `not status`", ok_ret, func=f, node=f.node, instance="_test:ret")
    ctx.ob("R3", "_test raises for status > 1", ok_raise, func=f, node=f.node, instance="_test:raise")


def r4(ctx):
    """Delegation idiom: `if (inner := await self._get_inner_path()) != self: inner.<same>(all params)`."""
    p = ctx.prog
    for f in _methods(ctx):
        has_inner = any("_get_inner_path" in unparse(c.func) for c in f.calls())
        if not has_inner:
            continue
        dl = _delegation(f)
        for _once in [0]:
            n = f.node
            ok_cmp = dl is not None
            same = []
            if dl is not None:
                t, k, var = dl
                g = f.cfg
                n = t.ast
                for nid in region(g, t.id, k):
                    for c in g.nodes[nid].calls():
                        if isinstance(c.func, ast.Attribute) and isinstance(c.func.value, ast.Name) and c.func.value.id == var and c.func.attr == f.name:
                            same.append(c)
            params = [a for a in f.params if a != "self"]
            forwarded = set()
            for c in same:
                for a in c.args:
                    forwarded |= {x.id for x in ast.walk(a) if isinstance(x, ast.Name)}
                for k_ in c.keywords:
                    forwarded |= {x.id for x in ast.walk(k_.value) if isinstance(x, ast.Name)}
                    if k_.arg is None:
                        forwarded |= set(params)
            missing = [a for a in params if a not in forwarded]
            ctx.ob(
                "R4",
                f"{f.name} delegates to inner_path.{f.name} with all arguments",
                ok_cmp and bool(same) and not missing,
                func=f,
                node=n,
                instance=f"{f.name}:delegate",
                message=f"{f.name}: delegation to the wrapped path is incomplete (missing args {missing}, same-op calls {len(same)})",
            )


def r5(ctx):
    """Numeric parsing of command output is guarded: every int()/float() of text that comes from a remote command is
    protected by an isdigit()/isnumeric() test or a ValueError handler (stderr is merged into stdout on some connectors)."""
    p = ctx.prog
    from ..model import ancestors as _anc

    funcs = _methods(ctx) + [p.func(f"{MOD}._size")]
    n = 0
    for f in funcs:
        outs = set()
        for x in f.body_nodes():
            if isinstance(x, ast.Assign) and isinstance(x.targets[0], (ast.Tuple, ast.List)) and any(
                    isinstance(y, ast.Call) and isinstance(y.func, ast.Attribute) and y.func.attr == "run" for y in ast.walk(x.value)):
                if isinstance(x.targets[0].elts[0], ast.Name):
                    outs.add(x.targets[0].elts[0].id)
        if not outs:
            continue
        # locals derived from the command output (result.strip(), renamed copies, ...)
        changed = True
        while changed:
            changed = False
            for x in f.body_nodes():
                if isinstance(x, ast.Assign) and len(x.targets) == 1 and isinstance(x.targets[0], ast.Name) and x.targets[0].id not in outs \
                        and any(isinstance(y, ast.Name) and y.id in outs for y in ast.walk(x.value)):
                    outs.add(x.targets[0].id)
                    changed = True
        for c in f.calls():
            if isinstance(c.func, ast.Name) and c.func.id in ("int", "float") and c.args and any(isinstance(y, ast.Name) and y.id in outs for y in ast.walk(c.args[0])):
                n += 1
                guarded = False
                par = getattr(c, "_parent", None)
                if isinstance(par, ast.IfExp) and par.body is c and ("isdigit()" in unparse(par.test) or "isnumeric()" in unparse(par.test) or "isdecimal()" in unparse(par.test)):
                    guarded = True
                for a in _anc(c):
                    if isinstance(a, ast.If) and ("isdigit()" in unparse(a.test) or "isnumeric()" in unparse(a.test)):
                        guarded = True
                    if isinstance(a, ast.Try) and any(h.type is None or "ValueError" in unparse(h.type) or unparse(h.type) in ("Exception",) for h in a.handlers):
                        guarded = True
                ctx.ob("R5", f"{f.name}: `{unparse(c)[:40]}` on command output is guarded", guarded, func=f, node=c, instance=f"{f.name}:numeric-parse",
                       message=f"{f.name}: `{unparse(c)[:60]}` parses raw command output without an isdigit()/ValueError guard: a diagnostic line in the output raises ValueError in the caller")
    ctx.require(n >= 2, f"C24.R5: only {n} numeric parses of command output found")


RULES = [("R1", r1), ("R2", r2), ("R3", r3), ("R4", r4), ("R5", r5)]
FLOORS = {"R1": 18, "R2": 2, "R3": 28, "R4": 14, "R5": 2}

VARIANTS = [
    V("walk: directory names relative to the walk root", FILE, f"{CLS}.walk", "relative_to(path)", "relative_to(self)", "R2", count=2),
    V("write_text returns the byte count", FILE, f"{CLS}.write_text", "return len(data)", "return len(data.encode('utf-8'))", "R2"),
    V("write_text returns through a temporary (benign)", FILE, f"{CLS}.write_text", "return len(data)", "written = len(data)\n        return written", None),

    V("exists: quote removed", FILE, f"{CLS}.exists", "shlex.quote(self.__str__())", "self.__str__()", "R1", control=True),
    V("is_dir: double quotes instead of shlex.quote", FILE, f"{CLS}.is_dir", "shlex.quote(self.__str__())", "f'\"{self.__str__()}\"'", "R1"),
    V("walk: quote removed", FILE, f"{CLS}.walk", "shlex.quote(str(path))", "str(path)", "R1"),
    V("resolve: quote removed", FILE, f"{CLS}.resolve", "path = shlex.quote(self.__str__())", "path = self.__str__()", "R1"),
    V("glob: quote removed", FILE, f"{CLS}.glob", "shlex.quote(str(self))", "str(self)", "R1"),
    V(
        "new method splices str(self) raw",
        FILE,
        f"{CLS}.is_symlink",
        "return await self._test(command=['-L', shlex.quote(self.__str__())])",
        "await self.connector.run(location=self.location, command=['touch', str(self)])\n    return await self._test(command=['-L', shlex.quote(self.__str__())])",
        "R1",
    ),
    V("is_file tests -e", FILE, f"{CLS}.is_file", "'-f'", "'-e'", "R3", control=True),
    V("is_dir tests -f", FILE, f"{CLS}.is_dir", "'-d'", "'-f'", "R3"),
    V("rmtree without -r", FILE, f"{CLS}.rmtree", "'-rf'", "'-f'", "R3"),
    V("mkdir -p only on parents", FILE, f"{CLS}.mkdir", "if parents or exist_ok:", "if parents:", "R3"),
    V("mkdir -p and", FILE, f"{CLS}.mkdir", "if parents or exist_ok:", "if parents and exist_ok:", "R3"),
    V("mkdir flags via conditional expression (benign)", FILE, f"{CLS}.mkdir",
      "command = ['mkdir', '-m', f'{mode:o}']\n        if parents or exist_ok:\n            command.append('-p')\n        command.append(shlex.quote(self.__str__()))",
      "flags = ['-p'] if parents or exist_ok else []\n        command = ['mkdir', '-m', f'{mode:o}', *flags, shlex.quote(self.__str__())]", None),
    V("mkdir flags via negated conditional expression (benign)", FILE, f"{CLS}.mkdir",
      "if parents or exist_ok:\n            command.append('-p')", "create = not (not parents and not exist_ok)\n        command.extend([] if not create else ['-p'])", None),
    V("mkdir flags conditional expression with swapped arms", FILE, f"{CLS}.mkdir",
      "if parents or exist_ok:\n            command.append('-p')", "command.extend([] if parents or exist_ok else ['-p'])", "R3"),
    V("mkdir flag built but not issued", FILE, f"{CLS}.mkdir",
      "if parents or exist_ok:\n            command.append('-p')", "flags = ['-p'] if parents or exist_ok else []", "R3"),
    V("chmod -h on follow_symlinks", FILE, f"{CLS}.chmod", "if not follow_symlinks:", "if follow_symlinks:", "R3"),
    V("chmod -h always", FILE, f"{CLS}.chmod", "if not follow_symlinks:\n            command.append('-h')", "command.append('-h')", "R3"),
    V("chmod flags via conditional expression (benign)", FILE, f"{CLS}.chmod",
      "command = ['chmod']\n        if not follow_symlinks:\n            command.append('-h')\n        command.extend([f'{mode:o}', shlex.quote(self.__str__())])",
      "flags = [] if follow_symlinks else ['-h']\n        command = ['chmod', *flags, f'{mode:o}', shlex.quote(self.__str__())]", None),
    V("_test returns status", FILE, f"{CLS}._test", "return not status", "return bool(status)", "R3"),
    V("_test tolerates status 2", FILE, f"{CLS}._test", "status > 1", "status > 2", "R3"),
    V("symlink operands swapped", FILE, f"{CLS}.symlink_to", "shlex.quote(str(target)), shlex.quote(self.__str__())", "shlex.quote(self.__str__()), shlex.quote(str(target))", "R3"),
    V("chmod: quote removed (S6 revert)", FILE, f"{CLS}.chmod", "shlex.quote(self.__str__())", "self.__str__()", "R1"),
    V("size: double quotes (S6 revert)", FILE, f"{CLS}.size", "shlex.quote(self.__str__())", "f'\"{self.__str__()}\"'", "R1"),
    V("glob: whitespace split (revert)", FILE, f"{CLS}.glob", "result.splitlines()", "result.split()", "R2"),
    V("chmod delegation drops follow_symlinks", FILE, f"{CLS}.chmod", "inner_path.chmod(mode, follow_symlinks=follow_symlinks)", "inner_path.chmod(mode)", "R4", control=True),
    V("is_dir delegates to exists", FILE, f"{CLS}.is_dir", "inner_path.is_dir()", "inner_path.exists()", "R4"),
    V("mkdir delegation drops exist_ok", FILE, f"{CLS}.mkdir", "parents=parents, exist_ok=exist_ok)", "parents=parents)", "R4"),
    V("write_text skips empty content", FILE, f"{CLS}.write_text", "if not isinstance(data, str):", "if not data:\n            return 0\n        if not isinstance(data, str):", "R3"),
    V("glob guard tests for a regular file", FILE, f"{CLS}.glob", "'-e'", "'-f'", "R3"),
    V("_make_child_relpath ignores the name (S17 revert)", FILE, f"{CLS}._make_child_relpath", "self._tail + [part]", "self._tail", "R3"),
    V("_size parses unguarded", FILE, f"{MOD}._size", "int(result) if result.isdigit() else 0", "int(result or 0)", "R5"),
    # benign
    V("exists: quote into a local first", FILE, f"{CLS}.exists", "return await self._test(command=['-e', shlex.quote(self.__str__())])", "q = shlex.quote(str(self))\n        return await self._test(command=['-e', q])", None),
    V("read_text: keeps the content verbatim (repair of the known finding)", FILE, f"{CLS}.read_text", "return result.strip()", "return result", None),
]
