"""Helpers shared by the group-A rule modules (C01, C33, C05, C06).

* flow-sensitive reaching definitions on the sfverif CFG (`rdefs`, `origin_at`) -- the engine's
  `dataflow.origins` is flow-insensitive, which is not enough for functions that rebind a name
  (`res` in compare_tags, `tag` in LoopCombinator._product, `inputs` in the firing loops);
* small AST recognisers: builtin calls, `X.split(".")`, `".".join(...)`, string concatenation,
  tag-expression canonicaliser;
* a truth-table folder for small boolean guards (P10).

Nothing here imports or executes code from /repo.
"""

from __future__ import annotations

import ast
import itertools
from dataclasses import dataclass

from ..model import Func, ancestors, unparse, walk_no_nested

# --------------------------------------------------------------------------- basics


def strip_await(e: ast.AST | None) -> ast.AST | None:
    while isinstance(e, ast.Await):
        e = e.value
    return e


def const_value(e: ast.AST | None):
    """Python value of a literal (`-1` included); `...` (Ellipsis class) when not a literal."""
    if isinstance(e, ast.Constant):
        return e.value
    if isinstance(e, ast.UnaryOp) and isinstance(e.op, ast.USub) and isinstance(e.operand, ast.Constant) and isinstance(
        e.operand.value, (int, float)
    ):
        return -e.operand.value
    return NotImplemented


def is_const(e: ast.AST | None, value) -> bool:
    v = const_value(e)
    return v is not NotImplemented and type(v) is type(value) and v == value


def shadowed(f: Func, name: str) -> bool:
    """`name` is rebound in f (param/local) or at module level (def/class/assignment/import)."""
    cache = f.__dict__.setdefault("_utilA_shadow", {})
    if name not in cache:
        cache[name] = _shadowed(f, name)
    return cache[name]


def _shadowed(f: Func, name: str) -> bool:
    g: Func | None = f
    while g is not None:
        if name in g.params:
            return True
        for n in g.body_nodes():
            if isinstance(n, ast.Name) and n.id == name and isinstance(n.ctx, ast.Store):
                return True
        g = g.outer
    m = f.module
    if name in m.imports:
        return True
    for n in m.tree.body:
        if isinstance(n, (ast.FunctionDef, ast.AsyncFunctionDef, ast.ClassDef)) and n.name == name:
            return True
        if isinstance(n, ast.Assign) and any(isinstance(t, ast.Name) and t.id == name for t in n.targets):
            return True
    return False


def builtin_call(f: Func, e: ast.AST | None, name: str) -> ast.Call | None:
    """`e` is a call of the builtin `name` (not shadowed in f's module)."""
    if isinstance(e, ast.Call) and isinstance(e.func, ast.Name) and e.func.id == name and not shadowed(f, name):
        return e
    return None


def method_call(e: ast.AST | None, attr: str) -> ast.Call | None:
    if isinstance(e, ast.Call) and isinstance(e.func, ast.Attribute) and e.func.attr == attr:
        return e
    return None


def kwarg(call: ast.Call, name: str, pos: int | None = None) -> ast.AST | None:
    for k in call.keywords:
        if k.arg == name:
            return k.value
    if pos is not None and len(call.args) > pos and not any(isinstance(a, ast.Starred) for a in call.args[: pos + 1]):
        return call.args[pos]
    return None


def resolves_to(prog, f: Func, call: ast.AST | None, *names: str) -> bool:
    """call resolves (without fan-out) to one of the qualified names (exact or dotted suffix)."""
    call = strip_await(call)
    if not isinstance(call, ast.Call):
        return False
    for q in prog.resolve_call(f, call, fanout=False):
        for nm in names:
            if q == nm or q.endswith("." + nm):
                return True
    return False


def same(a: ast.AST | None, b: ast.AST | None) -> bool:
    """Structural equality ignoring Load/Store context and formatting."""
    return a is not None and b is not None and unparse(a) == unparse(b)


# --------------------------------------------------------------------------- scoped binders


def scoped_binding(name: ast.Name):
    """If `name` is bound by an enclosing comprehension or lambda return
    ('comp', comprehension, index|None) / ('lambda', Lambda, position); else None."""
    for a in ancestors(name):
        if isinstance(a, (ast.FunctionDef, ast.AsyncFunctionDef, ast.ClassDef)):
            return None
        if isinstance(a, ast.Lambda):
            ps = [x.arg for x in a.args.posonlyargs + a.args.args + a.args.kwonlyargs]
            if name.id in ps:
                return ("lambda", a, ps.index(name.id))
        if isinstance(a, (ast.ListComp, ast.SetComp, ast.GeneratorExp, ast.DictComp)):
            for gen in a.generators:
                for idx in _target_index(gen.target, name.id):
                    return ("comp", gen, idx)
    return None


def _target_index(t: ast.AST, name: str, idx=None):
    if isinstance(t, ast.Name) and t.id == name:
        yield idx
    elif isinstance(t, (ast.Tuple, ast.List)):
        for i, e in enumerate(t.elts):
            yield from _target_index(e, name, i if idx is None else idx)
    elif isinstance(t, ast.Starred):
        yield from _target_index(t.value, name, idx)


# --------------------------------------------------------------------------- reaching definitions


@dataclass
class RDef:
    kind: str  # assign | aug | for | with | walrus | except | param | unbound
    value: ast.AST | None
    index: int | None
    nid: int | None  # CFG node of the definition
    stmt: ast.AST | None = None

    def key(self):
        return (self.kind, id(self.value), self.index, self.nid)


def _node_defs(node, name: str) -> list[RDef]:
    """Definitions of `name` performed by CFG node `node`."""
    out: list[RDef] = []
    a = node.ast
    if a is None:
        return out
    if node.kind == "stmt":
        if isinstance(a, ast.Assign):
            for t in a.targets:
                for idx in _target_index(t, name):
                    out.append(RDef("assign", a.value, idx, node.id, a))
        elif isinstance(a, ast.AnnAssign) and a.value is not None:
            for idx in _target_index(a.target, name):
                out.append(RDef("assign", a.value, idx, node.id, a))
        elif isinstance(a, ast.AugAssign):
            for idx in _target_index(a.target, name):
                out.append(RDef("aug", a.value, idx, node.id, a))
        elif isinstance(a, (ast.Import, ast.ImportFrom)):
            for al in a.names:
                if (al.asname or al.name.split(".")[0]) == name:
                    out.append(RDef("import", None, None, node.id, a))
    elif node.kind == "iter":
        for idx in _target_index(a.target, name):
            out.append(RDef("for", a.iter, idx, node.id, a))
    elif node.kind == "with_enter":
        for it in a.items:
            if it.optional_vars is not None:
                for idx in _target_index(it.optional_vars, name):
                    out.append(RDef("with", it.context_expr, idx, node.id, a))
    elif node.kind == "handler":
        if a.name == name:
            out.append(RDef("except", a.type, None, node.id, a))
    elif node.kind == "def":
        if getattr(a, "name", None) == name:
            out.append(RDef("def", a, None, node.id, a))
    if not out:
        for x in node.walk():
            if isinstance(x, ast.NamedExpr) and x.target.id == name:
                out.append(RDef("walrus", x.value, None, node.id, x))
    return out


def rdefs(f: Func, name: str, nid: int, use: ast.AST | None = None) -> list[RDef]:
    """Definitions of local `name` that may reach CFG node `nid` (all edge kinds).  A walrus in
    the node itself counts when `use` is outside the walrus' own value."""
    g = f.cfg
    here = g.nodes[nid]
    for x in here.walk():
        if isinstance(x, ast.NamedExpr) and x.target.id == name:
            if use is None or not any(y is use for y in ast.walk(x.value)):
                return [RDef("walrus", x.value, None, nid, x)]
    out: dict = {}
    seen = set()
    stack = [a for a, _k in g.pred[nid]]
    while stack:
        a = stack.pop()
        if a in seen:
            continue
        seen.add(a)
        ds = _node_defs(g.nodes[a], name)
        if ds:
            for d in ds:
                out[d.key()] = d
            continue
        if a == g.entry:
            if name in f.params:
                out[("param", name)] = RDef("param", None, None, None)
            else:
                out[("unbound", name)] = RDef("unbound", None, None, None)
            continue
        stack.extend(b for b, _k in g.pred[a])
    return list(out.values())


def nid_of(f: Func, expr: ast.AST) -> int | None:
    ids = f.cfg.node_containing(expr)
    return ids[0] if ids else None


def origin_at(f: Func, expr: ast.AST, nid: int | None = None, depth: int = 6) -> list[ast.AST]:
    """Expressions `expr` may denote when evaluated at CFG node `nid`: local names are replaced by
    their reaching plain assignments / walrus values (recursively, at the definition's own node).
    Parameters, loop variables, comprehension/lambda variables, attributes and calls are leaves.
    Awaits are stripped, conditional expressions fan out."""
    expr = strip_await(expr)
    if nid is None:
        nid = nid_of(f, expr)
    if isinstance(expr, ast.IfExp):
        return origin_at(f, expr.body, nid, depth) + origin_at(f, expr.orelse, nid, depth)
    if isinstance(expr, ast.NamedExpr):
        return origin_at(f, expr.value, nid, depth)
    if isinstance(expr, ast.Name) and depth > 0 and nid is not None and scoped_binding(expr) is None:
        ds = rdefs(f, expr.id, nid, use=expr)
        if ds and all(d.kind in ("assign", "walrus") and d.index is None for d in ds):
            out: list[ast.AST] = []
            for d in ds:
                out.extend(origin_at(f, d.value, d.nid, depth - 1))
            return out
    return [expr]


def single_origin(f: Func, expr: ast.AST, nid: int | None = None) -> ast.AST | None:
    os_ = origin_at(f, expr, nid)
    if len(os_) == 1:
        return os_[0]
    if os_ and all(same(os_[0], o) for o in os_[1:]):
        return os_[0]
    return None


def name_def(f: Func, expr: ast.AST, nid: int | None = None) -> RDef | None:
    """The unique reaching definition of a Name (any kind), else None."""
    if not isinstance(expr, ast.Name):
        return None
    sb = scoped_binding(expr)
    if sb is not None:
        kind, node, idx = sb
        if kind == "comp":
            return RDef("comp", node.iter, idx, None, node)
        return RDef("lambda", node, idx, None, node)
    if nid is None:
        nid = nid_of(f, expr)
    if nid is None:
        return None
    ds = rdefs(f, expr.id, nid, use=expr)
    return ds[0] if len(ds) == 1 else None


# --------------------------------------------------------------------------- tag expressions


def split_dot(e: ast.AST | None) -> ast.AST | None:
    """`X.split('.')` -> X (None otherwise)."""
    c = method_call(e, "split")
    if c is not None and len(c.args) == 1 and not c.keywords and is_const(c.args[0], "."):
        return c.func.value
    return None


def join_dot(e: ast.AST | None) -> ast.AST | None:
    """`'.'.join(L)` -> L."""
    c = method_call(e, "join")
    if c is not None and len(c.args) == 1 and not c.keywords and is_const(c.func.value, "."):
        return c.args[0]
    return None


def last_component(f: Func, e: ast.AST | None) -> ast.AST | None:
    """`X.split('.')[-1]` (or rsplit('.', 1)[-1] / rpartition('.')[2]) -> X."""
    if isinstance(e, ast.Subscript) and not isinstance(e.slice, ast.Slice):
        idx = const_value(e.slice)
        x = split_dot(e.value)
        if x is not None and idx == -1:
            return x
        c = method_call(e.value, "rsplit")
        if c is not None and len(c.args) == 2 and is_const(c.args[0], ".") and is_const(c.args[1], 1) and idx in (-1, 1):
            return c.func.value
        c = method_call(e.value, "rpartition")
        if c is not None and len(c.args) == 1 and is_const(c.args[0], ".") and idx in (-1, 2):
            return c.func.value
    return None


def concat_parts(e: ast.AST) -> list[ast.AST]:
    """Flatten a string built by `+`, f-string, `sep.join([..])` into its ordered parts
    (Constant str nodes are merged by the caller; FormattedValue -> its value, str(x) -> x)."""
    if isinstance(e, ast.BinOp) and isinstance(e.op, ast.Add):
        return concat_parts(e.left) + concat_parts(e.right)
    if isinstance(e, ast.JoinedStr):
        out: list[ast.AST] = []
        for v in e.values:
            if isinstance(v, ast.FormattedValue):
                if v.format_spec is not None or v.conversion not in (-1, 115):
                    out.append(v)
                else:
                    out.extend(concat_parts(v.value))
            else:
                out.append(v)
        return out
    c = method_call(e, "join")
    if c is not None and len(c.args) == 1 and isinstance(c.func.value, ast.Constant) and isinstance(c.func.value.value, str):
        seq = c.args[0]
        if isinstance(seq, (ast.List, ast.Tuple)) and not any(isinstance(x, ast.Starred) for x in seq.elts):
            out = []
            for i, x in enumerate(seq.elts):
                if i:
                    out.append(c.func.value)
                out.extend(concat_parts(x))
            return out
    if isinstance(e, ast.Call) and isinstance(e.func, ast.Name) and e.func.id == "str" and len(e.args) == 1 and not e.keywords:
        return concat_parts(e.args[0])
    return [e]


def merged_parts(e: ast.AST) -> list:
    """concat_parts with adjacent string constants merged: list of str | ast.AST."""
    out: list = []
    for p in concat_parts(e):
        if isinstance(p, ast.Constant) and isinstance(p.value, str):
            if out and isinstance(out[-1], str):
                out[-1] += p.value
            else:
                out.append(p.value)
        else:
            out.append(p)
    return [p for p in out if p != ""]


def tag_canon(f: Func, e: ast.AST, nid: int | None, depth: int = 6) -> str:
    """Canonical text of a tag-building expression.  Atoms: `<expr>` for a leaf expression,
    `init(<x>)` for 'all components of x but the last', literal text for constants.
    Components are joined by '.'; examples:
        '.'.join(tag.split('.') + ['0'])                  -> <tag>.0
        '.'.join(tag.split('.')[:-1] + [str(c)])          -> init(<tag>).<c>
        prefix + '.' + str(c)   (prefix = init of tag)    -> init(<tag>).<c>
    Unknown shapes come back as `?(<text>)`."""
    e = strip_await(e)
    if depth <= 0:
        return f"?({unparse(e)})"
    if isinstance(e, ast.Name) and scoped_binding(e) is None and nid is not None:
        ds = rdefs(f, e.id, nid, use=e)
        if len(ds) == 1 and ds[0].kind in ("assign", "walrus") and ds[0].index is None:
            v = strip_await(ds[0].value)
            # only tag-building definitions are looked through; a call / attribute is a leaf named by the local
            if isinstance(v, (ast.Name, ast.JoinedStr, ast.Subscript)) or (isinstance(v, ast.BinOp) and isinstance(v.op, ast.Add)) or join_dot(v) is not None or (
                isinstance(v, ast.Call) and isinstance(v.func, ast.Name) and v.func.id == "str"
            ):
                return tag_canon(f, v, ds[0].nid, depth - 1)
        return f"<{e.id}>"
    seq = join_dot(e)
    if seq is not None:
        comps = _comp_seq(f, seq, nid, depth - 1)
        if comps is not None:
            return ".".join(comps)
        return f"?({unparse(e)})"
    if isinstance(e, ast.Name):
        return f"<{e.id}>"
    parts = merged_parts(e)
    if len(parts) == 1 and parts[0] is e:
        return f"<{unparse(e)}>"
    out = ""
    for p in parts:
        if isinstance(p, str):
            out += p
        elif isinstance(p, ast.FormattedValue):
            out += f"?({unparse(p)})"
        else:
            out += tag_canon(f, p, nid, depth - 1)
    return out


def _comp_seq(f: Func, seq: ast.AST, nid: int | None, depth: int) -> list[str] | None:
    """Canonical components of a list-of-components expression."""
    if depth <= 0:
        return None
    if isinstance(seq, ast.BinOp) and isinstance(seq.op, ast.Add):
        a = _comp_seq(f, seq.left, nid, depth - 1)
        b = _comp_seq(f, seq.right, nid, depth - 1)
        return None if a is None or b is None else a + b
    if isinstance(seq, (ast.List, ast.Tuple)):
        out: list[str] = []
        for x in seq.elts:
            if isinstance(x, ast.Starred):
                sub = _comp_seq(f, x.value, nid, depth - 1)
                if sub is None:
                    return None
                out.extend(sub)
            else:
                out.append(tag_canon(f, x, nid, depth - 1))
        return out
    x = split_dot(seq)
    if x is not None:
        return [tag_canon(f, x, nid, depth - 1)]
    if isinstance(seq, ast.Subscript) and isinstance(seq.slice, ast.Slice):
        sl = seq.slice
        x = split_dot(seq.value)
        if x is None and isinstance(seq.value, ast.Name):
            o = single_origin(f, seq.value, nid)
            x = split_dot(o) if o is not None else None
        if x is not None and sl.lower is None and sl.step is None and sl.upper is not None:
            up = const_value(sl.upper)
            if up == -1:
                return [f"init({tag_canon(f, x, nid, depth - 1)})"]
            return [f"init[{unparse(sl.upper)}]({tag_canon(f, x, nid, depth - 1)})"]
        return None
    if isinstance(seq, ast.Name) and scoped_binding(seq) is None and nid is not None:
        ds = rdefs(f, seq.id, nid, use=seq)
        if len(ds) == 1 and ds[0].kind in ("assign", "walrus") and ds[0].index is None:
            return _comp_seq(f, ds[0].value, ds[0].nid, depth - 1)
    return None


# --------------------------------------------------------------------------- nonzero tests


def nonzero_test(test: ast.AST):
    """Interpret `test` as a test of `v != 0`.  Returns (v, edge) with edge 't' / 'f' = the branch
    taken when v is non-zero, or (v, 'bad:<op>') for an ordering comparison against 0, or None."""
    t = test
    if isinstance(t, ast.Compare) and len(t.ops) == 1:
        l, r, op = t.left, t.comparators[0], t.ops[0]
        if is_const(r, 0):
            v = l
        elif is_const(l, 0):
            v = r
        else:
            return None
        if isinstance(op, ast.NotEq):
            return (v, "t")
        if isinstance(op, ast.Eq):
            return (v, "f")
        return (v, "bad:" + type(op).__name__)
    if isinstance(t, ast.UnaryOp) and isinstance(t.op, ast.Not):
        inner = nonzero_test(t.operand)
        if inner is None:
            return None
        v, e = inner
        return (v, {"t": "f", "f": "t"}.get(e, e))
    if isinstance(t, (ast.Name, ast.NamedExpr, ast.BinOp, ast.Call)):
        return (t, "t")
    return None


# --------------------------------------------------------------------------- boolean folding (P10)


def fold_bool(test: ast.AST, atom):
    """Tabulate a boolean guard.  `atom(expr)` maps an atomic sub-expression to (name, polarity)
    or None.  Returns (names, {assignment tuple -> bool}) or None when an atom is not recognised."""
    names: list[str] = []

    def collect(e) -> bool:
        if isinstance(e, ast.BoolOp):
            return all(collect(v) for v in e.values)
        if isinstance(e, ast.UnaryOp) and isinstance(e.op, ast.Not):
            return collect(e.operand)
        a = atom(e)
        if a is None:
            return False
        if a[0] not in names:
            names.append(a[0])
        return True

    if not collect(test):
        return None

    def ev(e, env) -> bool:
        if isinstance(e, ast.BoolOp):
            vals = [ev(v, env) for v in e.values]
            return all(vals) if isinstance(e.op, ast.And) else any(vals)
        if isinstance(e, ast.UnaryOp) and isinstance(e.op, ast.Not):
            return not ev(e.operand, env)
        n, pol = atom(e)
        return env[n] if pol else not env[n]

    table = {}
    for vals in itertools.product([False, True], repeat=len(names)):
        env = dict(zip(names, vals))
        table[vals] = ev(test, env)
    return names, table


def emptiness_atom(e: ast.AST):
    """`len(X) == 0`, `not X`-style atoms over a container X: returns (X, polarity) where polarity
    True means 'the expression is true when X is empty'."""
    if isinstance(e, ast.Compare) and len(e.ops) == 1:
        l, r, op = e.left, e.comparators[0], e.ops[0]
        if isinstance(l, ast.Call) and isinstance(l.func, ast.Name) and l.func.id == "len" and len(l.args) == 1 and is_const(r, 0):
            if isinstance(op, (ast.Eq, ast.LtE)):
                return (l.args[0], True)
            if isinstance(op, (ast.NotEq, ast.Gt)):
                return (l.args[0], False)
        if isinstance(l, ast.Call) and isinstance(l.func, ast.Name) and l.func.id == "len" and len(l.args) == 1 and is_const(r, 1):
            if isinstance(op, ast.Lt):
                return (l.args[0], True)
            if isinstance(op, ast.GtE):
                return (l.args[0], False)
    return None


# --------------------------------------------------------------------------- CFG helpers


def branch_succ(g, tid: int, kind: str) -> list[int]:
    return [b for b, k in g.succ[tid] if k == kind]


def only_via(g, tid: int, kind: str, target: int) -> bool:
    """`target` is reachable from test `tid` through its `kind` edge and not through the other one
    (without passing the test again)."""
    other = "f" if kind == "t" else "t"
    a = branch_succ(g, tid, kind)
    b = branch_succ(g, tid, other)
    in_a = any(target == x or target in g.reach([x], avoid=[tid]) for x in a)
    in_b = any(target == x or target in g.reach([x], avoid=[tid]) for x in b)
    return in_a and not in_b


def enclosing_loop(node: ast.AST, stop: ast.AST | None = None):
    for a in ancestors(node):
        if a is stop:
            return None
        if isinstance(a, (ast.For, ast.AsyncFor, ast.While)):
            return a
        if isinstance(a, (ast.FunctionDef, ast.AsyncFunctionDef)):
            return None
    return None


def in_subtree(node: ast.AST, root: ast.AST) -> bool:
    if node is root:
        return True
    return any(a is root for a in ancestors(node))


def in_body(node: ast.AST, stmts: list[ast.stmt]) -> bool:
    return any(in_subtree(node, s) for s in stmts)


# --------------------------------------------------------------------------- equality tests inside guards


def compare_conjuncts(test: ast.AST) -> list[tuple[ast.Compare, str]]:
    """Single-operator comparisons of a guard together with the branch on which `left == right`
    is known to hold: 't'/'f', or 'op:<Name>' for an operator other than ==/!= (reported as if it were
    meant to hold on the true branch).  `a and (x == y)` -> 't'; `x != y` -> 'f'; `x != y or b` -> 'f';
    `not (...)` flips."""
    if isinstance(test, ast.Compare) and len(test.ops) == 1:
        op = test.ops[0]
        if isinstance(op, ast.Eq):
            return [(test, "t")]
        if isinstance(op, ast.NotEq):
            return [(test, "f")]
        return [(test, "op:" + type(op).__name__)]
    if isinstance(test, ast.BoolOp):
        keep = "t" if isinstance(test.op, ast.And) else "f"
        out = []
        for v in test.values:
            for c, e in compare_conjuncts(v):
                if e == keep or e.startswith("op:"):
                    out.append((c, e))
        return out
    if isinstance(test, ast.UnaryOp) and isinstance(test.op, ast.Not):
        return [(c, {"t": "f", "f": "t"}.get(e, e)) for c, e in compare_conjuncts(test.operand)]
    return []


def fire_edge(e: str) -> str:
    return e if e in ("t", "f") else "t"


def guarded_init(f: Func, g, store_id: int, container: ast.AST, key: ast.AST) -> bool:
    """The (re-)initialisation `container[key] = <empty>` at CFG node `store_id` only happens when
    `key not in container` (a dominating membership test whose matching branch leads to the store)."""
    for t in g.nodes.values():
        if t.kind != "test" or not g.dominates(t.id, store_id):
            continue
        for x in ast.walk(t.ast):
            if isinstance(x, ast.Compare) and len(x.ops) == 1 and isinstance(x.ops[0], (ast.In, ast.NotIn)) and same(x.left, key) and same(x.comparators[0], container):
                edge = "t" if isinstance(x.ops[0], ast.NotIn) else "f"
                node, nots, plain = x, 0, True
                while node is not t.ast:
                    node = getattr(node, "_parent", None)
                    if node is None:
                        plain = False
                        break
                    if isinstance(node, ast.UnaryOp) and isinstance(node.op, ast.Not):
                        nots += 1
                    elif not (isinstance(node, ast.BoolOp) and isinstance(node.op, ast.And) and edge == "t" and nots == 0):
                        plain = False
                        break
                if not plain:
                    continue
                if nots % 2:
                    edge = "f" if edge == "t" else "t"
                if only_via(g, t.id, edge, store_id):
                    return True
    return False


def test_compares(f: Func, t) -> list[tuple[ast.Compare, str]]:
    """compare_conjuncts of CFG test node `t`, looking through a local boolean
    (`complete = len(a) == n` ... `if complete:`)."""
    e = t.ast

    def expand(x, depth=3):
        if depth > 0 and isinstance(x, ast.Name):
            o = single_origin(f, x, t.id)
            if o is not None and not isinstance(o, ast.Name):
                return expand(o, depth - 1)
            return x
        if isinstance(x, ast.BoolOp):
            return ast.BoolOp(op=x.op, values=[expand(v, depth) for v in x.values])
        if isinstance(x, ast.UnaryOp) and isinstance(x.op, ast.Not):
            return ast.UnaryOp(op=x.op, operand=expand(x.operand, depth))
        return x

    return compare_conjuncts(expand(e))


def awaited(call: ast.AST) -> bool:
    return isinstance(getattr(call, "_parent", None), ast.Await)


# --------------------------------------------------------------------------- whole-program call index (one pass, cached per Program)


def calls_named(prog, name: str):
    """All call sites `<anything>.name(...)` / `name(...)` of the program (same answer as
    prog.calls_by_attr).  The index is built per module and cached on the Module object, which
    self-test variant programs share for every module they do not override."""
    out = []
    for m in prog.modules.values():
        if m.relpath.startswith("streamflow/cwl/antlr/"):
            continue
        idx = m.__dict__.get("_utilA_calls")
        if idx is None:
            idx = {}
            for fn in ast.walk(m.tree):
                if isinstance(fn, (ast.FunctionDef, ast.AsyncFunctionDef)) and hasattr(fn, "_qn"):
                    for c in walk_no_nested(fn):
                        if isinstance(c, ast.Call):
                            k = c.func.attr if isinstance(c.func, ast.Attribute) else (c.func.id if isinstance(c.func, ast.Name) else None)
                            if k is not None:
                                idx.setdefault(k, []).append((fn._qn, c))
            m.__dict__["_utilA_calls"] = idx
        for qn, c in idx.get(name, []):
            f = prog.functions.get(qn)
            if f is not None:
                out.append((f, c))
    return out


# --------------------------------------------------------------------------- anchors


def require_members(ctx, cls_q: str, methods=(), attrs=()):
    """The class (through its MRO) still defines the methods and assigns the `self.<attr>` fields a
    rule keys on; a renamed/vanished member is an analysis error, never a finding."""
    prog = ctx.prog
    prog.cls(cls_q)  # AnchorError when the class vanished
    for m in methods:
        ctx.require(prog.resolve_method(cls_q, m) is not None, f"anchor {cls_q}.{m} not found (renamed?)")
    if attrs:
        found = set()
        for k in prog.mro(cls_q):
            c = prog.classes.get(k)
            if c is None:
                continue
            for n in ast.walk(c.node):
                if isinstance(n, ast.Attribute) and isinstance(n.value, ast.Name) and n.value.id == "self" and isinstance(n.ctx, ast.Store):
                    found.add(n.attr)
                elif isinstance(n, ast.AnnAssign) and isinstance(n.target, ast.Name):
                    found.add(n.target.id)
        for a in attrs:
            ctx.require(a in found, f"anchor field {cls_q}.{a} not found (renamed?)")
