"""C10 The scheduler never over-allocates a location.

R1 guarded-by: every mutation of hardware_locations / job_allocations / location_allocations (and of a
   JobAllocation obtained from them) in DefaultScheduler happens lexically under `async with self.wait_queue`
   or in a method whose every call site does; no other module mutates these fields.
R2 atomic check-then-reserve: in _process_target the validity test (_is_valid) dominates the reservation
   (_allocate_job) and every path from a point where the condition lock is released (wait(), leaving or
   entering the `async with`) to the reservation re-evaluates the test.
R3 all stacked levels: _is_valid, _allocate_job and _free_resources walk `loc.wraps if loc.stacked` and switch
   to the wrapped connector; _is_valid answers False as soon as one level fails and True only after the loop.
R4 capacity test: hardware case `(location.hardware - reserved).satisfies(requirement)`; slot case
   `len(running) < slots`, slots default 1; running = FIREABLE or RUNNING (P10 over Status).
R5 reservation: _allocate_job adds the requirement to hardware_locations (+= / first normalised copy), records the
   allocation as FIREABLE and registers the job on every level; `scheduled = True` follows without suspension.
"""

from __future__ import annotations

import ast

from ..cfg import NORMAL
from ..model import dotted, unparse, walk_no_nested
from ..selftest import V
from ._util_sched import (
    LOCK,
    SCHED,
    SFILE,
    STATE_FIELDS,
    Unfoldable,
    fold,
    lock_protected_functions,
    root_attr,
    root_attr_via,
    state_mutations,
    status_members,
    under_lock,
)

META = {
    "explanation": (
        "Lock-scope (guarded-by), CFG dominance and shape rules on DefaultScheduler: all scheduler state is mutated "
        "only under the wait_queue condition lock; the capacity test and the reservation happen under one continuous "
        "hold of that lock; the test/reservation/release walk the same chain of stacked locations; the capacity "
        "predicates have the required form. These are necessary conditions for 'never over-allocates' under every "
        "interleaving; the arithmetic itself (C14) and policy behaviour are not decided."
    ),
    "undecided": "the arithmetic (C14), policy behaviour, histories with out-of-protocol status sequences",
    "assumptions": ["asyncio.Condition: wait() releases and re-acquires the lock; `async with cond` holds it across awaits"],
}


def _methods(ctx):
    return list(ctx.prog.cls(SCHED).methods.values())


def r1(ctx):
    p = ctx.prog
    prot = lock_protected_functions(p)
    n = 0
    for f in _methods(ctx):
        if f.name == "__init__":
            continue
        for node, field, kind in state_mutations(f):
            n += 1
            ok = under_lock(node) is not None or f.qualname in prot
            ctx.ob("R1", f"{f.name}: {kind} on self.{field} holds the scheduler lock", ok, func=f, node=node,
                   instance=f"{f.name}:{field}:{kind}",
                   message=f"self.{field} is mutated ({kind}) outside `async with self.wait_queue` and {f.name} has an unprotected call site",
                   witness=[f"protected methods: {sorted(q.rsplit('.', 1)[1] for q in prot)}"])
        # allocation objects fetched from job_allocations and mutated through a local
        for node in f.body_nodes():
            if isinstance(node, ast.Assign):
                for t in node.targets:
                    if isinstance(t, ast.Attribute) and isinstance(t.value, ast.Name) and t.value.id in ("job_allocation", "allocation") and t.attr in ("status", "hardware", "locations"):
                        n += 1
                        ok = under_lock(node) is not None or f.qualname in prot
                        ctx.ob("R1", f"{f.name}: write to {unparse(t)} holds the scheduler lock", ok, func=f, node=node,
                               instance=f"{f.name}:{unparse(t)}")
    # who-may-write over the whole program: no mutation of these fields outside the scheduler classes
    base = "streamflow.core.scheduling.Scheduler"

    def scan(m, funcs):
        res = []
        for f in funcs:
            for node in f.body_nodes():
                tgt = None
                if isinstance(node, (ast.Assign, ast.AugAssign)):
                    for t in (node.targets if isinstance(node, ast.Assign) else [node.target]):
                        if isinstance(t, (ast.Subscript, ast.Attribute)):
                            tgt = t
                elif isinstance(node, ast.Call) and isinstance(node.func, ast.Attribute) and node.func.attr in (
                    "append", "pop", "remove", "clear", "setdefault", "update", "__setitem__"):
                    tgt = node.func.value
                if tgt is None:
                    continue
                txt = unparse(tgt)
                if any(f".scheduler.{fld}" in txt or f"scheduler.{fld}[" in txt for fld in STATE_FIELDS):
                    res.append((f.qualname, node, txt))
        return res

    for q, node, txt in p.per_module("c10.external_writers", scan):
        f = p.functions[q]
        if f.cls is not None and p.is_subclass(f.cls.qualname, base):
            continue
        ctx.ob("R1", f"external mutation of scheduler.{txt}", False, func=f, node=node,
               instance=f"external:{txt}", message=f"scheduler state `{txt}` is mutated outside the scheduler (no lock)")
    ctx.ob("R1", "no scheduler state is mutated outside Scheduler subclasses", True, qualname="<program>",
           instance="external-writers")


def _call_nodes(g, attr):
    return [n for n in g.nodes.values() if any(
        isinstance(c.func, ast.Attribute) and c.func.attr == attr and dotted(c.func.value) == "self" for c in n.calls())]


def r2(ctx):
    p = ctx.prog
    f = p.func(f"{SCHED}._process_target")
    g = f.cfg
    valid = _call_nodes(g, "_is_valid")
    alloc = _call_nodes(g, "_allocate_job")
    ctx.require(len(valid) >= 1 and len(alloc) >= 1, "C10.R2: _is_valid/_allocate_job call sites not found in _process_target")
    vids = [n.id for n in valid]
    for a in alloc:
        w = under_lock(a.ast if not isinstance(a.ast, ast.expr) else a.ast)
        lock_stmt = None
        for c in a.calls():
            lock_stmt = under_lock(c) or lock_stmt
        ctx.ob("R2", "_allocate_job is called under the scheduler lock", lock_stmt is not None, func=f, node=a.ast,
               instance="alloc-under-lock", message="the reservation is made without holding self.wait_queue")
        ctx.ob("R2", "the validity test dominates the reservation", g.dominates(vids, a.id), func=f, node=a.ast,
               instance="valid-dominates-alloc", message="a path reaches _allocate_job without evaluating _is_valid")
        # release points: wait() on the condition, enter/exit of the lock's async-with
        rel = []
        for n in g.nodes.values():
            if any(isinstance(c.func, ast.Attribute) and c.func.attr == "wait" and unparse(c.func.value) == LOCK for c in n.calls()):
                rel.append(n)
            if n.kind in ("with_enter", "with_exit") and isinstance(n.ast, ast.AsyncWith) and any(
                unparse(i.context_expr) == LOCK for i in n.ast.items):
                rel.append(n)
        ctx.require(len(rel) >= 2, "C10.R2: lock release points not found")
        for r in rel:
            pth = g.path(r.id, [a.id], avoid=vids)
            ctx.ob("R2", f"after `{r.text(50)}` the capacity test is re-evaluated before reserving", pth is None,
                   func=f, node=r.ast if r.kind not in ("with_enter", "with_exit") else a.ast,
                   instance=f"recheck:{r.kind}:{r.text(60)}",
                   message="the lock is released between the capacity test and the reservation (stale test)",
                   witness=g.describe(pth) if pth else [])
    # valid_locations actually gates the allocation: the allocation's locations derive from the valid set
    for a in alloc:
        for c in a.calls():
            if isinstance(c.func, ast.Attribute) and c.func.attr == "_allocate_job":
                sel = [k.value for k in c.keywords if k.arg == "selected_locations"] or c.args[3:4]
                ctx.require(bool(sel), "C10.R2: selected_locations argument not found")
                from ..dataflow import origins

                srcs = origins(f, sel[0])
                ok = False
                for s in srcs:
                    if isinstance(s, ast.Call) and isinstance(s.func, ast.Attribute) and s.func.attr == "_get_locations":
                        av = [k.value for k in s.keywords if k.arg == "available_locations"]
                        for e in av:
                            for o in origins(f, e):
                                if isinstance(o, ast.DictComp) and any(
                                    isinstance(x, ast.Call) and isinstance(x.func, ast.Attribute) and x.func.attr == "_is_valid"
                                    for i in o.generators for cond in i.ifs for x in ast.walk(cond)):
                                    ok = True
                ctx.ob("R2", "reserved locations are chosen among the locations that passed _is_valid", ok, func=f, node=c,
                       instance="selected-from-valid",
                       message="locations handed to _allocate_job do not derive from the _is_valid-filtered set")


def _stack_walk(f):
    """Facts about the stacked-location loop of f."""
    loops = [n for n in f.body_nodes() if isinstance(n, ast.While)]
    facts = {"loop": False, "advance": False, "connector": False}
    for lp in loops:
        facts["loop"] = True
        for n in walk_no_nested(lp):
            txt = unparse(n) if isinstance(n, (ast.NamedExpr, ast.Assign)) else ""
            if isinstance(n, (ast.NamedExpr, ast.Assign)) and ".wraps" in txt and ".stacked" in txt:
                facts["advance"] = True
            if isinstance(n, ast.Assign) and unparse(n.value).endswith(".connector") and "ConnectorWrapper" in unparse(n.value):
                facts["connector"] = True
    return facts


def r3(ctx):
    p = ctx.prog
    for name in ("_is_valid", "_allocate_job", "_free_resources", "_resolve_hardware_requirement"):
        f = p.func(f"{SCHED}.{name}")
        fa = _stack_walk(f)
        ctx.ob("R3", f"{name} walks every stacked level (loop, `wraps if stacked` advance, wrapped connector)",
               all(fa.values()), func=f, node=f.node, instance=f"{name}:stack-walk",
               message=f"{name} does not visit all stacked levels: {fa}")
    f = p.func(f"{SCHED}._is_valid")
    g = f.cfg
    loop_tests = [n for n in g.nodes.values() if n.kind == "test" and isinstance(getattr(n.ast, "_parent", None), ast.While)]
    ctx.require(len(loop_tests) == 1, "C10.R3: _is_valid loop not found")
    lt = loop_tests[0]
    rets = [n for n in g.nodes.values() if n.kind == "return"]
    true_rets = [n for n in rets if isinstance(n.ast.value, ast.Constant) and n.ast.value.value is True]
    false_rets = [n for n in rets if isinstance(n.ast.value, ast.Constant) and n.ast.value.value is False]
    other = [n for n in rets if n not in true_rets and n not in false_rets]
    ctx.ob("R3", "_is_valid returns only literal True/False", not other and bool(true_rets) and len(false_rets) >= 2,
           func=f, node=f.node, instance="_is_valid:returns")
    # True only via the loop's exit edge
    f_succ = [b for b, k in g.succ[lt.id] if k == "f"]
    ok = all(any(t.id == b or t.id in g.reach([b]) for b in f_succ) and g.path(g.entry, [t.id], avoid=[lt.id]) is None
             and not any(t.id in g.reach([b], avoid=[lt.id]) for b, k in g.succ[lt.id] if k == "t") for t in true_rets)
    ctx.ob("R3", "_is_valid returns True only after every level was examined", ok, func=f, node=f.node,
           instance="_is_valid:true-after-loop", message="_is_valid can answer True before all stacked levels were checked")
    # each capacity test failing returns False immediately
    from ..facts import test_text

    tests = [n for n in g.nodes.values() if n.kind == "test" and ("satisfies" in test_text(f, n) or "_get_running_jobs" in test_text(f, n))]
    ctx.require(len(tests) == 2, f"C10.R3: expected 2 capacity tests in _is_valid, found {len(tests)}")
    for t in tests:
        tsucc = g.real_succ(t.id, "t")
        ok = bool(tsucc) and all(g.nodes[b] in false_rets for b in tsucc)
        ctx.ob("R3", f"failing capacity test `{t.text(50)}` returns False at once", ok, func=f, node=t.ast,
               instance=f"_is_valid:fail-fast:{'hw' if 'satisfies' in t.text(300) else 'slots'}")


def r4(ctx):
    p = ctx.prog
    f = p.func(f"{SCHED}._is_valid")
    sat = [c for c in f.calls() if isinstance(c.func, ast.Attribute) and c.func.attr == "satisfies"]
    ctx.require(len(sat) == 1, "C10.R4: satisfies() call not found")
    c = sat[0]
    recv = c.func.value
    ok = (isinstance(recv, ast.BinOp) and isinstance(recv.op, ast.Sub) and unparse(recv.left).endswith(".hardware")
          and root_attr(recv.right) == "hardware_locations")
    arg_ok = len(c.args) == 1 and "requirement" in unparse(c.args[0])
    ctx.ob("R4", "hardware test is (capacity - reserved).satisfies(requirement)", ok and arg_ok, func=f, node=c,
           instance="hw-test-shape", message=f"hardware capacity test has the wrong shape: {unparse(c)}")
    # negated in the if
    par = getattr(c, "_parent", None)
    neg = isinstance(par, ast.UnaryOp) and isinstance(par.op, ast.Not)
    ctx.ob("R4", "`not satisfies` leads to return False", neg, func=f, node=c, instance="hw-test-neg")
    # reserved default is an empty Hardware()
    if isinstance(recv, ast.BinOp) and isinstance(recv.right, ast.Call) and isinstance(recv.right.func, ast.Attribute) and recv.right.func.attr == "get":
        dflt = recv.right.args[1] if len(recv.right.args) > 1 else None
        key = unparse(recv.right.args[0]) if recv.right.args else ""
        ctx.ob("R4", "reserved amount is looked up by the location name with an empty default",
               dflt is not None and unparse(dflt) == "Hardware()" and key.endswith(".name"), func=f, node=c, instance="hw-reserved-lookup")
    # slots
    from ..dataflow import reaching_defs as _rd

    def _deref(e):
        """a local holding the measured count (`n = len(self._get_running_jobs(..))`) stands for its defining expression"""
        if isinstance(e, ast.Name) and getattr(e, "_parent", None) is not None:
            ds = _rd(f, e.id, e)
            if len(ds) == 1 and ds[0].kind == "assign" and ds[0].index is None and ds[0].value is not None:
                return ds[0].value
        return e

    cmps = [n for n in f.body_nodes() if isinstance(n, ast.Compare) and "_get_running_jobs" in unparse(_deref(n.left))]
    ctx.require(len(cmps) == 1, "C10.R4: slot comparison not found")
    cmp_ = cmps[0]
    left_ = _deref(cmp_.left)
    SLOTS = unparse(cmp_.comparators[0]) if isinstance(cmp_.comparators[0], ast.Name) else "slots"
    ok = (len(cmp_.ops) == 1 and isinstance(cmp_.ops[0], ast.Lt) and isinstance(left_, ast.Call) and unparse(left_.func) == "len"
          and isinstance(cmp_.comparators[0], ast.Name))
    par = getattr(cmp_, "_parent", None)
    neg = isinstance(par, ast.UnaryOp) and isinstance(par.op, ast.Not)
    alt = (len(cmp_.ops) == 1 and isinstance(cmp_.ops[0], ast.GtE) and not neg)
    ctx.ob("R4", "slot test is len(running) < slots", (ok and neg) or alt, func=f, node=cmp_, instance="slot-test-shape",
           message=f"slot capacity test has the wrong shape: {unparse(par if neg else cmp_)}")
    from ..dataflow import defs_of

    ds = [d for d in defs_of(f, SLOTS) if d.kind == "assign"]
    ok = len(ds) == 1 and isinstance(ds[0].value, ast.IfExp) and unparse(ds[0].value.orelse) == "1" and unparse(ds[0].value.body).endswith(".slots")
    ctx.ob("R4", "slots defaults to 1", ok, func=f, node=ds[0].stmt if ds else f.node, instance="slots-default")
    # running predicate (P10)
    rj = p.func(f"{SCHED}._get_running_jobs")
    # the predicate is the first argument of filter(): a lambda, or a named (nested) function of one `return <expr>`
    lam = [n for n in rj.body_nodes() if isinstance(n, ast.Lambda)]
    if not lam:
        for c in rj.calls():
            if unparse(c.func) == "filter" and c.args and isinstance(c.args[0], ast.Name):
                for n in ast.walk(rj.node):
                    if isinstance(n, ast.FunctionDef) and n.name == c.args[0].id:
                        rets = [x for x in ast.walk(n) if isinstance(x, ast.Return)]
                        stmts = [x for x in n.body if not (isinstance(x, ast.Pass) or (isinstance(x, ast.Expr) and isinstance(x.value, ast.Constant)))]
                        if len(rets) == 1 and stmts == rets and rets[0].value is not None:
                            lam.append(ast.Lambda(args=n.args, body=rets[0].value, lineno=n.lineno, col_offset=n.col_offset))
    ctx.require(len(lam) == 1, "C10.R4: running-jobs predicate (lambda or single-return function) not found")
    body = lam[0].body
    members = status_members(p)

    def subst(e):
        # replace `self.job_allocations[x].status` by the variable S and any other non-status atom by False
        class T(ast.NodeTransformer):
            def visit_Attribute(self, node):
                if node.attr == "status" and root_attr(node.value) == "job_allocations":
                    return ast.Name(id="S", ctx=ast.Load())
                return node

            def visit_Compare(self, node):
                node = self.generic_visit(node)
                txt = unparse(node)
                if "S" not in {x.id for x in ast.walk(node) if isinstance(x, ast.Name)}:
                    return ast.Constant(value=COND)
                return node

        return T().visit(ast.parse(unparse(e), mode="eval").body)

    table = {}
    try:
        for COND in (False, True):
            for m in members:
                table[(m, COND)] = bool(fold(subst(body), {"S": f"Status.{m}"}))
    except Unfoldable as e:
        ctx.require(False, f"C10.R4: running predicate cannot be tabulated: {e}")
    always = {m for m in members if table[(m, False)]}
    sometimes = {m for m in members if table[(m, True)]} - always
    ctx.ob("R4", "jobs counted as occupying a slot are exactly FIREABLE and RUNNING (plus conditional ROLLBACK)",
           always == {"FIREABLE", "RUNNING"} and sometimes <= {"ROLLBACK"}, func=rj, node=lam[0],
           instance="running-predicate", message=f"slot occupancy predicate: always={sorted(always)} conditional={sorted(sometimes)}")
    # predicate ranges over the jobs registered on that very location
    flt = [c for c in rj.calls() if unparse(c.func) == "filter"]
    ok = bool(flt) and len(flt[0].args) == 2 and root_attr(flt[0].args[1]) == "location_allocations" and unparse(flt[0].args[1]).endswith(".jobs")
    ctx.ob("R4", "occupancy is computed over the jobs of the examined location", ok, func=rj, node=rj.node, instance="running-domain")


def r5(ctx):
    p = ctx.prog
    f = p.func(f"{SCHED}._allocate_job")
    # job allocation recorded as FIREABLE
    ja = [n for n in f.body_nodes() if isinstance(n, ast.Assign) and root_attr(n.targets[0]) == "job_allocations"]
    ctx.require(len(ja) == 1, "C10.R5: job_allocations store not found")
    v = ja[0].value
    st = [k.value for k in v.keywords if k.arg == "status"] if isinstance(v, ast.Call) else []
    ctx.ob("R5", "new allocation is recorded as FIREABLE", bool(st) and unparse(st[0]) == "Status.FIREABLE", func=f, node=ja[0],
           instance="alloc-status", message="a fresh allocation is not FIREABLE: it is not counted by the capacity test")
    # hardware reservation: += requirement or first normalised copy, under `if key in hardware ... hardware[key]`
    aug = [n for n in f.body_nodes() if isinstance(n, ast.AugAssign) and root_attr(n.target) == "hardware_locations"]
    first = [n for n in f.body_nodes() if isinstance(n, ast.Assign) and root_attr(n.targets[0]) == "hardware_locations"]
    from ..dataflow import origins as _or

    def _hw_entry(e):
        """(key expression) when e denotes the per-level requirement `hardware[K]` / `hardware.get(K)` (through temporaries / walrus)."""
        ks = []
        for o in _or(f, e):
            if isinstance(o, ast.NamedExpr):
                o = o.value
            if isinstance(o, ast.Subscript) and unparse(o.value) == "hardware":
                ks.append(o.slice)
            elif isinstance(o, ast.Call) and isinstance(o.func, ast.Attribute) and o.func.attr == "get" and unparse(o.func.value) == "hardware" and o.args:
                ks.append(o.args[0])
            else:
                return None
        return ks or None

    ok = len(aug) == 1 and isinstance(aug[0].op, ast.Add) and len(first) == 1
    keys = _hw_entry(aug[0].value) if ok else None
    ok = ok and keys is not None
    if ok:
        fv = first[0].value
        ok = (isinstance(fv, ast.Call) and isinstance(fv.func, ast.Attribute) and fv.func.attr == "normalized" and _hw_entry(fv.func.value) is not None
              and unparse(aug[0].target) == unparse(first[0].targets[0]))
    if ok:
        # the key is built from the connector of the *current* level and the location name
        ks = [unparse(o) for k in keys for o in _or(f, k)]
        ok = bool(ks) and all("deployment_name" in k and ".name" in k and not k.startswith("posixpath.join(connector.") for k in ks)
    ctx.ob("R5", "reservation adds the level's requirement to hardware_locations[loc.name]", ok, func=f,
           node=aug[0] if aug else f.node, instance="reserve-add",
           message="the reservation does not add the per-level requirement to the location's reserved hardware")
    # the job is registered on each level
    reg = [c for c in f.calls() if isinstance(c.func, ast.Attribute) and c.func.attr == "append" and root_attr_via(f, c.func.value) == "location_allocations"]
    inloop = bool(reg) and any(isinstance(a, ast.While) for a in __import__("sfverif.model", fromlist=["ancestors"]).ancestors(reg[0]))
    ctx.ob("R5", "the job is registered in location_allocations at every level", bool(reg) and inloop and unparse(reg[0].args[0]) == "job.name",
           func=f, node=reg[0] if reg else f.node, instance="register-job")
    # scheduled = True right after allocation, no suspension between
    f = p.func(f"{SCHED}._process_target")
    g = f.cfg
    alloc = _call_nodes(g, "_allocate_job")
    sched = [n for n in g.nodes.values() if n.kind == "stmt" and isinstance(n.ast, ast.Assign)
             and unparse(n.ast.targets[0]).endswith(".scheduled") and unparse(n.ast.value) == "True"]
    ctx.require(bool(alloc), "C10.R5: allocation call not found in _process_target")
    if not sched:
        ctx.ob("R5", "`scheduled = True` follows the reservation", False, func=f, node=alloc[0].ast, instance="scheduled-after-alloc",
               message="_process_target never sets `scheduled = True` after reserving: the sibling target tasks allocate the same job again")
    susp = g.suspension_nodes()
    for a in alloc:
        pth_susp = [s for s in susp if s in g.reach([a.id], avoid=[x.id for x in sched]) and any(x.id in g.reach([s]) for x in sched)]
        esc = g.escape(a.id, [x.id for x in sched])
        ctx.ob("R5", "`scheduled = True` follows the reservation on every path, with no suspension in between",
               esc is None and not pth_susp, func=f, node=a.ast, instance="scheduled-after-alloc",
               message="another target task can run between the reservation and `scheduled = True` (double allocation)",
               witness=g.describe(esc) if esc else [g.nodes[s].text() for s in pth_susp])
    # the scheduled test precedes the work, under the per-job lock
    tests = [n for n in g.nodes.values() if n.kind == "test" and unparse(n.ast).endswith(".scheduled")]
    ok = bool(tests) and all(g.dominates([t.id for t in tests], a.id) for a in alloc)
    ctx.ob("R5", "a target task re-tests `scheduled` before allocating", ok, func=f, node=f.node, instance="scheduled-test")


def r6(ctx):
    """A multi-location request never selects the same location twice: the candidate map handed to the policy in
    `_get_locations` is narrowed after every pick by filtering *itself* (not a fixed superset) on the picked location."""
    p = ctx.prog
    f = p.func(f"{SCHED}._get_locations")
    calls = [c for c in f.calls() if isinstance(c.func, ast.Attribute) and c.func.attr == "get_location"]
    ctx.require(len(calls) >= 1, "C10.R6: policy call get_location not found in _get_locations")
    from ..dataflow import defs_of
    from ..model import ancestors

    for c in calls:
        loops = [a for a in ancestors(c) if isinstance(a, (ast.For, ast.While))]
        arg = next((k.value for k in c.keywords if k.arg == "available_locations"), None)
        if not loops or not isinstance(arg, ast.Name):
            ctx.ob("R6", "the policy is asked once per requested location with a named candidate map", bool(loops) and isinstance(arg, ast.Name), func=f, node=c,
                   instance="select:loop")
            continue
        loop = loops[0]
        picked = None
        par = getattr(c, "_parent", None)
        while par is not None and not isinstance(par, (ast.NamedExpr, ast.Assign, ast.stmt)):
            par = getattr(par, "_parent", None)
        if isinstance(par, ast.NamedExpr):
            picked = par.target.id
        elif isinstance(par, ast.Assign) and isinstance(par.targets[0], ast.Name):
            picked = par.targets[0].id
        inner = [d for d in defs_of(f, arg.id) if d.stmt is not None and any(a is loop for a in ancestors(d.stmt))]
        ok = bool(inner) and picked is not None
        why = "the candidate map is never narrowed inside the selection loop" if not inner else ""
        for d in inner:
            v = d.value
            names = {x.id for x in ast.walk(v) if isinstance(x, ast.Name)} if v is not None else set()
            src = None
            if isinstance(v, (ast.DictComp, ast.ListComp, ast.SetComp, ast.GeneratorExp)):
                it = v.generators[0].iter
                src = next((x.id for x in ast.walk(it) if isinstance(x, ast.Name)), None)
            elif isinstance(v, ast.Call):
                src = next((x.id for a_ in v.args for x in ast.walk(a_) if isinstance(x, ast.Name) and x.id != picked), None)
            if src != arg.id or picked not in names:
                ok = False
                why = (f"`{arg.id}` is rebuilt from `{src}` instead of from itself: a location picked earlier becomes a candidate again"
                       if src != arg.id else f"the new candidate map does not exclude the picked location `{picked}`")
        ctx.ob("R6", "after each pick the candidate map is narrowed by filtering itself on the picked location", ok, func=f, node=c, instance="select:narrowing",
               message=f"_get_locations: {why}: the same location can be selected twice and its capacity is reserved twice although it was tested once")


RULES = [("R1", r1), ("R2", r2), ("R3", r3), ("R4", r4), ("R5", r5), ("R6", r6)]
FLOORS = {"R1": 8, "R2": 6, "R3": 8, "R4": 7, "R5": 5, "R6": 1}

PT = f"{SCHED}._process_target"
VARIANTS = [
    V("candidates rebuilt from the full map minus the last pick", SFILE, f"{SCHED}._get_locations",
      "for k, v in available_locations.items() if v != selected_location}", "for k, v in all_locations.items() if v != selected_location}", "R6"),
    V("picked location not excluded", SFILE, f"{SCHED}._get_locations", "if v != selected_location}", "if v is not None}", "R6"),

    V("notify_status without the lock", SFILE, f"{SCHED}.notify_status", "async with self.wait_queue:", "if True:", "R1", control=True),
    V("allocation moved after the lock", SFILE, PT,
      "async with self.wait_queue:\n        while True:", "async with self.wait_queue:\n        pass\n    if True:\n        while True:", "R2"),
    V("wait between check and allocate", SFILE, PT,
      "self._allocate_job(job=job_context.job,", "await self.wait_queue.wait()\n                        self._allocate_job(job=job_context.job,", "R2", control=True),
    V("allocate without validity filter", SFILE, PT, "available_locations=valid_locations", "available_locations=available_locations", "R2"),
    V("_is_valid stops after the first level", SFILE, f"{SCHED}._is_valid",
      "if (location := (location.wraps if location.stacked else None)):", "if (location := None):", "R3"),
    V("_is_valid returns True inside loop", SFILE, f"{SCHED}._is_valid",
      "if (location := (location.wraps if location.stacked else None)):", "return True\n        if (location := (location.wraps if location.stacked else None)):", "R3"),
    V("_free_resources only first level", SFILE, f"{SCHED}._free_resources",
      "[loc.wraps for loc in locations if loc.stacked]", "[]", "R3"),
    V("slots <=", SFILE, f"{SCHED}._is_valid", "< slots", "<= slots", "R4", control=True),
    V("slots default 0", SFILE, f"{SCHED}._is_valid", "is not None else 1", "is not None else 2", "R4"),
    V("FIREABLE dropped from running predicate", SFILE, f"{SCHED}._get_running_jobs",
      "self.job_allocations[x].status == Status.RUNNING or self.job_allocations[x].status == Status.FIREABLE or ",
      "self.job_allocations[x].status == Status.RUNNING or ", "R4"),
    V("capacity test ignores reservations", SFILE, f"{SCHED}._is_valid",
      "(location.hardware - self.hardware_locations.get(location.name, Hardware()))", "location.hardware", "R4"),
    V("satisfies direction swapped", SFILE, f"{SCHED}._is_valid",
      "(location.hardware - self.hardware_locations.get(location.name, Hardware())).satisfies(hardware_requirement)",
      "hardware_requirement.satisfies(location.hardware - self.hardware_locations.get(location.name, Hardware()))", "R4"),
    V("allocation recorded as RUNNING", SFILE, f"{SCHED}._allocate_job", "status=Status.FIREABLE", "status=Status.WAITING", "R5"),
    V("reservation overwrites instead of adding", SFILE, f"{SCHED}._allocate_job",
      "self.hardware_locations[loc.name] += hardware[key]", "self.hardware_locations[loc.name] = hardware[key]", "R5"),
    V("await between allocate and scheduled flag", SFILE, PT, "job_context.scheduled = True", "await asyncio.sleep(0)\n                        job_context.scheduled = True", "R5"),
    V("scheduled flag dropped", SFILE, PT, "job_context.scheduled = True\n", "pass\n", "R5"),
    V("external writer", SFILE, None, None, None, "R1",
      append="async def _steal(context, name):\n    context.scheduler.hardware_locations[name] = None\n"),
    # benign
    V("rename comprehension var", SFILE, PT, "{k: loc for k, loc in available_locations.items() if self._is_valid(connector=connector, location=loc,", "{k: l2 for k, l2 in available_locations.items() if self._is_valid(connector=connector, location=l2,", None),
    V("logging inside lock", SFILE, f"{SCHED}.notify_status", "self.wait_queue.notify_all()", "logger.debug('n')\n            self.wait_queue.notify_all()", None),
    V("slots as >=", SFILE, f"{SCHED}._is_valid", "if not len(self._get_running_jobs(job_name, location)) < slots:", "if len(self._get_running_jobs(job_name, location)) >= slots:", None),
]
