"""C12 A job that fits is eventually scheduled (no lost wake-ups).

R1 notify after every change: in notify_status every normal path from a state change (status write,
   _free_resources, ROLLBACK clean-up) to the end of the `async with self.wait_queue` block passes
   `self.wait_queue.notify_all()`, which is itself issued while the lock is held.
R2 waiter re-tests in a loop: the `wait_queue.wait()` of _process_target sits in a `while True` under the same lock
   hold as the capacity test; the loop is left only by `return` after the `scheduled` test or after an allocation;
   after waking up the capacity test is evaluated again; a timeout of the wait does not leave the loop.
R3 schedule() creates one _process_target task per surviving target, awaits the first completion and calls
   result() so a failure is not swallowed.
"""

from __future__ import annotations

import ast

from ..cfg import ALL, NORMAL
from ..model import dotted, unparse
from ..selftest import V
from ._util_sched import LOCK, SCHED, SFILE, root_attr, under_lock

META = {
    "explanation": (
        "CFG must-pass-through of notify_all() after each state change inside the lock scope of notify_status; "
        "structure of the waiting loop in _process_target (test and wait under one lock hold, loop exits, re-test after "
        "wake-up, timeout handling); task fan-out and failure propagation in schedule(). Necessary for 'no lost "
        "wake-up' under every interleaving; fairness among waiters is not decided."
    ),
    "undecided": "fairness among waiters; behaviour when _free_resources raises before notify_all (observation)",
    "assumptions": ["asyncio.Condition semantics (wait releases the lock atomically; notify_all requires the lock)"],
}


def _is_call(n, recv, attr):
    return any(isinstance(c.func, ast.Attribute) and c.func.attr == attr and unparse(c.func.value) == recv for c in n.calls())


def r1(ctx):
    p = ctx.prog
    f = p.func(f"{SCHED}.notify_status")
    g = f.cfg
    notif = [n for n in g.nodes.values() if _is_call(n, LOCK, "notify_all")]
    if not notif:
        ctx.ob("R1", "notify_status notifies the waiters", False, func=f, node=f.node, instance="notify:missing",
               message="notify_status never calls self.wait_queue.notify_all(): requests waiting for capacity are never woken up")
        return
    for n in notif:
        inlock = any(under_lock(c) is not None for c in n.calls())
        ctx.ob("R1", "notify_all is issued while holding the condition lock", inlock, func=f, node=n.ast, instance="notify:locked",
               message="notify_all() outside `async with self.wait_queue` raises RuntimeError / races with waiters")
    exits = [n.id for n in g.nodes.values() if n.kind == "with_exit" and isinstance(n.ast, ast.AsyncWith)
             and any(unparse(i.context_expr) == LOCK for i in n.ast.items)]
    ctx.require(bool(exits), "C12.R1: lock scope exit not found")
    nids = [n.id for n in notif]
    changes = []
    for n in g.nodes.values():
        if n.kind == "stmt" and isinstance(n.ast, ast.Assign) and isinstance(n.ast.targets[0], ast.Attribute) and n.ast.targets[0].attr == "status":
            changes.append((n, "status write"))
        elif _is_call(n, "self", "_free_resources"):
            changes.append((n, "resource release"))
        elif any(isinstance(c.func, ast.Attribute) and c.func.attr in ("remove", "clear", "discard") and
                 (root_attr(c.func.value) == "location_allocations" or unparse(c.func.value).endswith(".locations")) for c in n.calls()):
            changes.append((n, "rollback clean-up"))
    ctx.require(len(changes) >= 3, f"C12.R1: expected >=3 state changes in notify_status, found {len(changes)}")
    for n, what in changes:
        if what == "resource release":
            aw = all(isinstance(getattr(c, "_parent", None), ast.Await) for c in n.calls() if isinstance(c.func, ast.Attribute) and c.func.attr == "_free_resources")
            ctx.ob("R1", "the release completes (is awaited) before waiters are notified", aw, func=f, node=n.ast, instance="notify-after:release-awaited",
                   message="_free_resources is started but not awaited before notify_all(): waiters re-test while the capacity is still reserved and nobody wakes them again")
        w = g.path(n.id, exits + [g.exit], avoid=nids, kinds=NORMAL)
        ctx.ob("R1", f"{what} `{n.text(50)}` is followed by notify_all() before the lock is released", w is None, func=f, node=n.ast,
               instance=f"notify-after:{what}", message=f"{what} can leave the lock scope without notify_all(): waiters that now fit are not woken up",
               witness=g.describe(w) if w else [])
        # exception-edge observation
    fr = [n for n, what in changes if what == "resource release"]
    for n in fr:
        w = g.path(n.id, [g.raise_], avoid=nids, kinds=ALL)
        if w:
            ctx.observe("C12: if _free_resources raises, notify_status leaves without notify_all (exception edge; not armed)")


def r2(ctx):
    p = ctx.prog
    f = p.func(f"{SCHED}._process_target")
    g = f.cfg
    from ..model import ancestors as _anc0

    # the retry wait: an awaited `<condition>.wait()` inside the retry loop (possibly wrapped in wait_for)
    allw = [(n, c) for n in g.nodes.values() for c in n.calls()
            if isinstance(c.func, ast.Attribute) and c.func.attr == "wait" and not c.args and not c.keywords]
    ctx.require(len(allw) >= 1, "C12.R2: no condition wait found in _process_target")
    own = [(n, c) for n, c in allw if unparse(c.func.value) == LOCK]
    ctx.ob("R2", "the retry wait is on the scheduler-wide condition that notify_status notifies", len(own) == 1 and len(allw) == 1, func=f, node=allw[0][1],
           instance="wait:same-condition",
           message=f"the retry waits on `{unparse(allw[0][1].func.value)}` while notify_status wakes `{LOCK}`: capacity freed through another object "
                   "(e.g. a deployment sharing the location) never wakes this request")
    w, wcall = own[0] if own else allw[0]
    lock_stmt = under_lock(wcall)
    # no other lock is held while sleeping: sibling target tasks (and notify_status behind them) would block on it
    others = [unparse(i.context_expr) for a in _anc0(wcall) if isinstance(a, ast.AsyncWith) for i in a.items if unparse(i.context_expr) != LOCK]
    ctx.ob("R2", "no other lock is held while the request sleeps on the condition", not others, func=f, node=wcall, instance="wait:no-other-lock",
           message=f"the request sleeps on the condition while holding {others}: a sibling target task takes the scheduler lock and blocks on that lock, "
                   "so notify_status can never run and nobody is woken (lock-order inversion)")
    ctx.ob("R2", "the wait happens while holding the condition lock", lock_stmt is not None, func=f, node=w.ast, instance="wait:locked")
    # enclosing while True
    from ..model import ancestors

    loops = [a for a in ancestors(wcall) if isinstance(a, ast.While)]
    ok_loop = bool(loops) and isinstance(loops[0].test, ast.Constant) and loops[0].test.value is True
    ctx.ob("R2", "the wait is inside `while True` (condition re-tested after every wake-up)", ok_loop, func=f, node=w.ast,
           instance="wait:loop", message="the waiter does not loop: a spurious or stolen wake-up loses the request")
    # loop and test under the same lock statement
    valid = [n for n in g.nodes.values() if _is_call(n, "self", "_is_valid")]
    ctx.require(bool(valid), "C12.R2: capacity test not found")
    same = lock_stmt is not None and all(any(under_lock(c) is lock_stmt for c in v.calls()) for v in valid) and bool(loops) and under_lock(loops[0]) is lock_stmt
    ctx.ob("R2", "capacity test, loop and wait are under one hold of the lock (no window between 'no capacity' and waiting)", same,
           func=f, node=w.ast, instance="wait:same-hold",
           message="the lock is released between the failed capacity test and wait(): a notification in that window is lost")
    # after wake-up every path to an allocation / exit re-tests
    vids = [v.id for v in valid]
    sched_tests = [n.id for n in g.nodes.values() if n.kind == "test" and unparse(n.ast).endswith(".scheduled")]
    alloc = [n.id for n in g.nodes.values() if _is_call(n, "self", "_allocate_job")]
    esc = g.path(w.id, [g.exit], avoid=sched_tests + alloc, kinds=NORMAL)
    ctx.ob("R2", "the waiting loop is left only after the `scheduled` test or an allocation", esc is None, func=f, node=w.ast,
           instance="wait:exits", message="the waiter can give up without having been scheduled", witness=g.describe(esc) if esc else [])
    stale = g.path(w.id, alloc, avoid=sched_tests, kinds=NORMAL)
    ctx.ob("R2", "after a wake-up the `scheduled` flag is re-tested before allocating", stale is None, func=f, node=w.ast, instance="wait:rescheduled-test",
           message="a target task that slept does not re-test `scheduled`: the job is allocated again on a second target after a sibling task already placed it",
           witness=g.describe(stale) if stale else [])
    back = g.path(w.id, vids, kinds=NORMAL)
    ctx.ob("R2", "after a wake-up the capacity test is evaluated again", back is not None, func=f, node=w.ast, instance="wait:retest")
    # timeout of the wait is absorbed (stays in the loop)
    uses_timeout = "wait_for" in w.text(200)
    if uses_timeout:
        tries = [a for a in ancestors(wcall) if isinstance(a, ast.Try)]
        ok_to = False
        for t in tries[:1]:
            for h in t.handlers:
                names = unparse(h.type) if h.type is not None else "BaseException"
                if "TimeoutError" in names or names in ("Exception", "BaseException"):
                    ok_to = not any(isinstance(x, (ast.Return, ast.Raise, ast.Break)) for b in h.body for x in ast.walk(b))
        ctx.ob("R2", "a timeout of the wait is caught and the loop continues", ok_to, func=f, node=w.ast,
               instance="wait:timeout", message="the retry timeout escapes _process_target (or leaves the loop): the request fails instead of retrying")
    # every non-scheduling path through an iteration reaches the wait (no busy path that skips both wait and return)
    for v in valid:
        loop_back = g.path(v.id, [v.id], avoid=[w.id] + alloc, kinds=NORMAL)
        ctx.ob("R2", "an iteration that could not schedule reaches the wait", loop_back is None, func=f, node=v.ast, instance="wait:reached",
               message="a failed attempt loops without waiting (busy loop holding the lock: notify_status can never run)",
               witness=g.describe(loop_back) if loop_back else [])


def r3(ctx):
    p = ctx.prog
    f = p.func(f"{SCHED}.schedule")
    from ..model import ancestors as _anc
    from ..roles import vars_from

    # the fan-out: the _process_target call sits in a comprehension or a statement loop over the surviving targets
    pts = [x for x in f.calls() if isinstance(x.func, ast.Attribute) and x.func.attr == "_process_target"]
    ctx.ob("R3", "schedule creates the target tasks at one place", len(pts) == 1, func=f, node=f.node, instance="fanout:site",
           message=f"{len(pts)} _process_target call sites in schedule()")
    if len(pts) != 1:
        return
    call = pts[0]
    it = tgt = None
    filtered = False
    c = call
    for a in _anc(call):
        if isinstance(a, (ast.ListComp, ast.GeneratorExp, ast.SetComp)):
            it, tgt, filtered, c = a.generators[0].iter, a.generators[0].target, len(a.generators) != 1 or bool(a.generators[0].ifs), a
            break
        if isinstance(a, (ast.For, ast.AsyncFor)):
            it, tgt, c = a.iter, a.target, a
            break
        if isinstance(a, (ast.If, ast.IfExp, ast.While, ast.Try)):
            filtered = True
        if isinstance(a, (ast.FunctionDef, ast.AsyncFunctionDef)):
            break
    tv = vars_from(f, lambda e: isinstance(e, ast.Call) and isinstance(e.func, ast.Attribute) and e.func.attr == "get_targets")
    ok = it is not None and isinstance(it, ast.Name) and (it.id in tv) and not filtered
    mk = False
    for a in _anc(call):
        if a is c:
            break
        if isinstance(a, ast.Call) and unparse(a.func) in ("asyncio.create_task", "asyncio.ensure_future"):
            mk = True
    tgt_kw = [k for k in call.keywords if k.arg == "target"]
    ok_t = bool(tgt_kw) and tgt is not None and unparse(tgt_kw[0].value) == unparse(tgt)
    ctx.ob("R3", "one _process_target task per surviving target", ok and mk and ok_t, func=f, node=c, instance="fanout")
    waits = [x for x in f.calls() if unparse(x.func) == "asyncio.wait"]
    okw = bool(waits) and any(k.arg == "return_when" and unparse(k.value).endswith("FIRST_COMPLETED") for k in waits[0].keywords)
    ctx.ob("R3", "schedule awaits the first completed target task", okw, func=f, node=waits[0] if waits else f.node, instance="first-completed")
    res = [x for x in f.calls() if isinstance(x.func, ast.Attribute) and x.func.attr == "result"]
    g = f.cfg
    okr = bool(res)
    ctx.ob("R3", "result() is called on finished tasks (failures propagate)", okr, func=f, node=res[0] if res else f.node, instance="result",
           message="a failing _process_target task is swallowed: the job is never scheduled and nobody is told")
    # job context shared by all tasks
    jc = [k for k in call.keywords if k.arg == "job_context"]
    from ..dataflow import defs_of as _defs

    # one context for all tasks: the argument is a local bound once, outside the fan-out loop
    shared = bool(jc) and isinstance(jc[0].value, ast.Name) and len(_defs(f, jc[0].value.id)) == 1 and not any(
        d.stmt is not None and c in list(_anc(d.stmt)) for d in _defs(f, jc[0].value.id))
    ctx.ob("R3", "all target tasks share one JobContext (single `scheduled` flag)", shared, func=f, node=c, instance="shared-context")


RULES = [("R1", r1), ("R2", r2), ("R3", r3)]
FLOORS = {"R1": 5, "R2": 10, "R3": 4}

NS = f"{SCHED}.notify_status"
PT = f"{SCHED}._process_target"
VARIANTS = [
    V("retry wait on a per-deployment condition", SFILE, PT, "self.wait_queue.wait()", "self.wait_queues.setdefault(deployment, asyncio.Condition(lock=self.wait_queue._lock)).wait()", "R2"),

    V("release detached into a task", SFILE, NS, "await self._free_resources(connector, job_allocation)", "asyncio.create_task(self._free_resources(connector, job_allocation))", "R1"),
    V("scheduled test hoisted out of the retry loop", SFILE, PT,
      "while True:\n            async with job_context.lock:\n                if job_context.scheduled:\n                    return",
      "if job_context.scheduled:\n            return\n        while True:\n            async with job_context.lock:", "R2"),
    V("notify_all removed", SFILE, NS, "self.wait_queue.notify_all()", "pass", "R1", control=True),
    V("notify_all only on rollback", SFILE, NS, "            job_allocation.locations.clear()\n            self.wait_queue.notify_all()", "            job_allocation.locations.clear()\n                self.wait_queue.notify_all()", "R1"),
    V("notify_all before release", SFILE, NS, "if status != previous_status and (previous_status", "self.wait_queue.notify_all()\n            if status != previous_status and (previous_status", None),
    V("notify_all moved before the changes only", SFILE, NS,
      "if status != (previous_status := job_allocation.status):", "self.wait_queue.notify_all()\n            if status != (previous_status := job_allocation.status):", None),
    V("notify_all outside lock", SFILE, NS, "            self.wait_queue.notify_all()", "    self.wait_queue.notify_all()", "R1"),
    V("while True replaced by single pass", SFILE, PT, "while True:", "for _ in range(1):", "R2", control=True),
    V("timeout escapes", SFILE, PT, "except (TimeoutError, asyncio.exceptions.TimeoutError):", "except KeyError:", "R2"),
    V("return after wait", SFILE, PT, "await asyncio.wait_for(self.wait_queue.wait(), timeout=self.retry_interval)", "await asyncio.wait_for(self.wait_queue.wait(), timeout=self.retry_interval)\n                return", "R2"),
    V("wait skipped when not enough locations", SFILE, PT, "if len(valid_locations) >= target.locations:",
      "if len(valid_locations) < target.locations:\n                    continue\n                if len(valid_locations) >= target.locations:", "R2"),
    V("result() dropped", SFILE, f"{SCHED}.schedule", "task.result()", "pass", "R3", control=True),
    V("tasks over reversed targets subset", SFILE, f"{SCHED}.schedule", "for target in targets]", "for target in targets[:1]]", "R3"),
    V("wait for all", SFILE, f"{SCHED}.schedule", "asyncio.FIRST_COMPLETED", "asyncio.ALL_COMPLETED", "R3"),
    # benign
    V("rename", SFILE, f"{SCHED}.schedule", "wait_tasks", "tasks", None, count=2),
    V("debug log before notify", SFILE, NS, "self.wait_queue.notify_all()", "logger.debug('wake')\n            self.wait_queue.notify_all()", None),
]
