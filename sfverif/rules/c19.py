"""C19 Concurrent recoveries share work and never deadlock.

R1 canonical lock order (`_recover`): every request lock is acquired inside one loop over
   `sorted(<requests>, key=<job-independent total order: id / name>)`; the sorted collection is the
   very collection handed to `_synchronize_workflows`; the job names it is built from are
   de-duplicated (a set) - `asyncio.Lock` is not re-entrant, the same request twice is a
   self-deadlock; all acquisitions precede `_synchronize_workflows`, which runs while the locks are
   held; `RecoveryRequest.lock` is an `asyncio.Lock()` created in `__init__` and never rebound.
R2 `executor.run()` (and token injection / restore) happen after the lock scope is left: a failure
   inside the recovery workflow re-enters `_recover` and needs the same locks.
R3 one request per job: `get_request` has no suspension point; every `RecoveryRequest(...)`
   constructed in the program is stored in `_retry_requests` under the requested job name by the
   statement that creates it; nobody else mutates `_retry_requests`; every `return` yields the registered request:
   `setdefault`, a subscript under a known membership / after a store, or a local whose reaching definitions
   (flow-sensitive) are such, a `<registry>.get(job)` answer that reaches the return only through an outcome
   establishing `is not None` (CFG edges, not lexical nesting) or a fresh request that is stored under the job name on
   every path to the return.
R4 `is_recovering` is true exactly for ROLLBACK, RUNNING, FIREABLE (P10 fold over Status).
R5 hand-over in `_synchronize_workflows`: in the recovering branch the *running* recovery
   workflow's port gets a PROPAGATE rule towards the new workflow's port keyed by the job token's
   tag and the job's outputs are promoted to roots of the new token graph; in the other branch `_update_request` (which marks the job ROLLBACK after counting) is
   awaited before the request records the new workflow, on every path; `RecoveryRequest.workflow`
   is written nowhere else.  Either branch may delegate to a same-module function / method (split method, refactoring
   B20-3): the resolved call is followed (2 levels for the hand-over, 1 for the rollback), the request, its running
   workflow and the new workflow being the never-rebound parameters the call site binds to them; a delegate of the
   rollback branch may write `workflow` / call `_update_request` as long as `_synchronize_workflows` is its only caller.
   `_get_recovery_port`: each returned value is read through temporaries (flow-sensitive
   reaching definitions: `tmp = <expr>; return tmp`), the facts are those known where <expr> is evaluated.
R6 (added) every coroutine call on the synchronisation path is awaited.
R7 (added, seeded change C19/1) the answer to `is this job already being recovered` is obtained under the request
   locks.  The test of `_synchronize_workflows` that separates the hand-over from the rollback is located through
   the provenance of its condition (`_util_D.recovering_decision`): an `is_recovering()` call, a boolean local, an
   extracted predicate returning it, or a *snapshot* - membership in a collection of names selected by
   `is_recovering` (comprehension, or loop + add), a mapping name -> answer - also when the snapshot arrives as a
   parameter (call sites followed through the whole-program call index).  Every `is_recovering()` evaluation the
   decision reads must lie in `_synchronize_workflows` itself (entered only under the locks: R1, R5) or, in
   `_recover`, inside the `async with` that releases the locks and after every acquisition (CFG dominance by the
   acquisition loop, no acquisition reachable from it).  Nec.: a snapshot taken before the locks is stale once the
   recoveries are serialised by them - each waiting recovery takes the rollback branch, bumps the version, notifies
   ROLLBACK again and re-runs the producer; nothing is shared.  A decision that reads no `is_recovering()` answer
   at all (e.g. the request's recorded workflow) is reported too.  R5 (and C17.R2) evaluate their obligations on
   the same located test, so a snapshot shape no longer makes them refuse.
Undecided: at-most-once re-execution per loss.
Not decided by R7: `is_recovering()` evaluated inside the acquisition loop under the request's own lock only, and the
pre-lock read of `is_recovering` by `ProvenanceGraph.build_graph` (it prunes the search; the binding decision is the
one of `_synchronize_workflows`).
"""

from __future__ import annotations

import ast

from ..cfg import NORMAL
from ..dataflow import defs_of, origins, reaching_defs
from ..model import ancestors, dotted, parent, unparse
from ..selftest import V
from ._util_D import (
    FM,
    FM_FILE,
    REC_FILE,
    REQ,
    RFM,
    STATUS,
    Uninterpretable,
    attr_writes,
    bind_args,
    callers_of,
    check_awaited,
    check_defined,
    expr_facts,
    has_fact,
    implied,
    membership_fact,
    path_facts,
    is_awaited,
    is_builtin_call,
    lock_sites,
    mentions,
    recovering_decision,
    receiver_may_be,
    recovering_statuses,
    region,
    resolves_to,
    returned_exprs,
    stage_calls,
    strip,
    succ,
)

META = {
    "explanation": (
        "Lock-discipline rules on RollbackFailureManager: def-use origin of the collection whose locks are taken (sorted, "
        "job-independent key, de-duplicated names, same collection as the synchronised one), lexical/CFG scope of the "
        "AsyncExitStack versus executor.run, suspension-freedom and storage of per-job requests (whole-program "
        "constructor and who-may-write sweep), fold of is_recovering over Status, and the two hand-over branches of "
        "_synchronize_workflows (located through the provenance of the is_recovering answer: direct call, boolean local, "
        "extracted predicate, snapshot collection / mapping, also across the call into _synchronize_workflows), and the "
        "position of every is_recovering evaluation feeding that decision relative to the lock scope of _recover (R7). "
        "Decides necessary conditions for deadlock-freedom and sharing; interleavings are not executed."
    ),
    "undecided": "at-most-once re-execution per loss; delivery of regenerated tokens through the boundary rules (C03)",
    "assumptions": ["asyncio.Lock is not re-entrant", "id() is a total order on live objects; job names are unique"],
}


def _recover_facts(ctx):
    p = ctx.prog
    f = p.func(f"{RFM}._recover")
    g = f.cfg
    acq = []  # (cfg node id, expr `.lock`, enclosing loop)
    for n in g.nodes.values():
        if n.kind not in ("stmt", "with_enter"):
            continue
        for x in n.walk():
            if isinstance(x, ast.Attribute) and x.attr == "lock":
                par = parent(x)
                via_stack = isinstance(par, ast.Call) and isinstance(par.func, ast.Attribute) and par.func.attr == "enter_async_context"
                if n.kind == "with_enter" or via_stack or (isinstance(par, ast.Attribute) and par.attr == "acquire"):
                    loop = next((a for a in ancestors(x) if isinstance(a, (ast.For, ast.AsyncFor))), None)
                    acq.append((n.id, x, loop, par if via_stack else None))
    sync_all = stage_calls(p, f, [f"{RFM}._synchronize_workflows"])
    sync = [c for c, h in sync_all if h is None]
    ctx.require(bool(sync) or not sync_all, "C19: _synchronize_workflows is only called through a helper of _recover: cannot bind its arguments")
    runs = [c for c, _ in stage_calls(p, f, ["streamflow.workflow.executor.StreamFlowExecutor.run"])]
    if not acq:
        ctx.require(not [1 for _, h in lock_sites(p, f) if h is not None],
                    "C19: the request locks are acquired inside a helper of _recover: the lock scope cannot be interpreted")
    return f, g, acq, sync, runs


def _key_ok(p, f, kw) -> tuple[bool, str]:
    """sort key is job-independent and total: `id`, `lambda r: r.name`, `lambda r: id(r)`, attrgetter('name')."""
    if kw is None:
        return False, "no sort key (RecoveryRequest objects are not orderable)"
    k = strip(kw)
    if isinstance(k, ast.Name) and k.id == "id" and not p._is_local(f, "id"):
        return True, ""
    if isinstance(k, ast.Lambda) and len(k.args.args) == 1:
        a = k.args.args[0].arg
        b = k.body
        if isinstance(b, ast.Attribute) and b.attr == "name" and isinstance(b.value, ast.Name) and b.value.id == a:
            return True, ""
        if isinstance(b, ast.Call) and isinstance(b.func, ast.Name) and b.func.id == "id" and len(b.args) == 1 and isinstance(b.args[0], ast.Name) and b.args[0].id == a:
            return True, ""
        return False, f"sort key `{unparse(k)}` is not a fixed total order of the requests (it must not depend on mutable state)"
    if isinstance(k, ast.Call) and (dotted(k.func) or "").split(".")[-1] == "attrgetter" and len(k.args) == 1 and isinstance(k.args[0], ast.Constant) and k.args[0].value == "name":
        return True, ""
    return False, f"sort key `{unparse(k)}` is not recognised as a job-independent total order"


# --------------------------------------------------------------------------- R1


def r1(ctx):
    p = ctx.prog
    f, g, acq, sync, runs = _recover_facts(ctx)
    ctx.require(bool(sync), "C19.R1: _recover does not call _synchronize_workflows")
    ok_any = bool(acq)
    ctx.ob("R1", "_recover acquires the request locks", ok_any, func=f, node=f.node, instance="locks:present",
           message="_recover takes no request lock: concurrent recoveries of jobs sharing ancestors race on the same requests")
    sync_def = p.func(f"{RFM}._synchronize_workflows")
    b = bind_args(sync_def.node, sync[0]) or {}
    synced = b.get("retry_requests")
    ctx.require(synced is not None, "C19.R1: retry_requests argument of _synchronize_workflows not found")
    for nid, x, loop, call in acq:
        ok, msg = True, ""
        if loop is None:
            ok, msg = False, "the lock is not acquired in a loop over the sorted requests"
        else:
            srt = None
            for o in origins(f, loop.iter):
                o = strip(o)
                if is_builtin_call(p, f, o, "sorted"):
                    srt = o
            recv = x.value
            if srt is None:
                ok, msg = False, f"locks are acquired in the order of `{unparse(loop.iter)}`, not in a canonical (sorted) order: two recoveries can take the same locks in opposite orders"
            elif not (isinstance(recv, ast.Name) and isinstance(loop.target, ast.Name) and recv.id == loop.target.id):
                ok, msg = False, f"the acquired lock `{unparse(x)}` does not belong to the loop variable"
            else:
                kw = next((k.value for k in srt.keywords if k.arg == "key"), None)
                ok, msg = _key_ok(p, f, kw)
                rev = next((k.value for k in srt.keywords if k.arg == "reverse"), None)
                if ok and rev is not None and not isinstance(rev, ast.Constant):
                    ok, msg = False, f"the sort direction `reverse={unparse(rev)}` is not fixed: two recoveries may order the same locks differently"
                if ok and any(k.arg not in ("key", "reverse") for k in srt.keywords):
                    ok, msg = False, "unexpected arguments of sorted()"
                if ok and srt.args:
                    arg0 = srt.args[0]
                    while is_builtin_call(p, f, strip(arg0), "set") or is_builtin_call(p, f, strip(arg0), "list") or is_builtin_call(p, f, strip(arg0), "tuple"):
                        if len(strip(arg0).args) != 1:
                            break
                        arg0 = strip(arg0).args[0]
                    a = {unparse(strip(o)) for o in origins(f, arg0)}
                    s_ = {unparse(strip(o)) for o in origins(f, synced)}
                    if not (a & s_):
                        ok, msg = False, f"the locked collection `{unparse(srt.args[0])}` is not the synchronised one `{unparse(synced)}`"
        aw = call is None or is_awaited(call)
        ctx.ob("R1", "request locks are acquired in one canonical order over all synchronised requests", ok and aw, func=f, node=x,
               instance="locks:order", message=msg or "the acquisition is not awaited")
    # de-duplicated job names
    dedup = False
    detail = unparse(synced)
    for o in origins(f, synced):
        o = strip(o)
        if isinstance(o, (ast.ListComp, ast.GeneratorExp, ast.SetComp)) and len(o.generators) == 1:
            for it in origins(f, o.generators[0].iter):
                it = strip(it)
                detail = unparse(it)
                if isinstance(it, (ast.Set, ast.SetComp)) or is_builtin_call(p, f, it, "set") or is_builtin_call(p, f, it, "frozenset") or (
                        isinstance(it, ast.Call) and isinstance(it.func, ast.Attribute) and it.func.attr == "fromkeys"):
                    dedup = True
            if isinstance(o, ast.SetComp):
                dedup = True
        elif is_builtin_call(p, f, o, "set") or isinstance(o, ast.Set):
            dedup = True
    ctx.ob("R1", "each request is locked at most once (job names are de-duplicated)", dedup, func=f, node=synced, instance="locks:dedup",
           message=f"the job names `{detail[:90]}` may contain duplicates: the same non-re-entrant lock would be awaited twice (self-deadlock)")
    # all acquisitions precede the synchronisation, which runs inside the lock scope
    sids = [i for c in sync for i in g.node_containing(c)]
    heads = sorted({i for _, _, loop, _ in acq if loop is not None for i in g.ids_of(loop)} | {nid for nid, _, loop, _ in acq if loop is None})
    before = bool(heads) and all(g.dominates(heads, s) for s in sids) and not any(nid in g.reach(sids) for nid, _, _, _ in acq)
    held = True
    for c in sync:
        withs = [a for a in ancestors(c) if isinstance(a, (ast.AsyncWith, ast.With))]
        if any(n.kind == "with_enter" for nid, _, _, _ in acq for n in [g.nodes[nid]]):
            held = held and any(g.nodes[nid].ast in withs for nid, _, _, _ in acq)
        else:
            stacks = {unparse(call.func.value) for _, _, _, call in acq if call is not None}
            held = held and any(
                isinstance(it.optional_vars, ast.Name) and it.optional_vars.id in stacks for w in withs for it in w.items)
    ctx.ob("R1", "all locks are taken before _synchronize_workflows, which runs while they are held", before and held and bool(acq), func=f, node=sync[0],
           instance="locks:before-sync", message=f"_synchronize_workflows is not protected by the request locks (acquired before={before}, inside the lock scope={held})")
    # the lock itself
    init = p.func(f"{REQ}.__init__")
    lock_writes = []
    for h, n, r, k in attr_writes(p, "lock"):
        if k != "assign":
            continue
        if isinstance(r, ast.Name) and r.id in ("self", "cls"):
            if h.cls is not None and h.cls.qualname == REQ:
                lock_writes.append((h, n, r))
            continue
        if receiver_may_be(p, h, r, REQ):
            lock_writes.append((h, n, r))
    ctx.require(bool(lock_writes), "C19.R1: RecoveryRequest.lock is never assigned")
    for h, n, r in lock_writes:
        v = strip(n.value) if getattr(n, "value", None) is not None else None
        is_lock = isinstance(v, ast.Call) and p.resolve_call(h, v, fanout=False) == ["asyncio.Lock"]
        ctx.ob("R1", "RecoveryRequest.lock is a per-request asyncio.Lock created in __init__", h is init and is_lock, func=h, node=n, instance=f"lock:{h.qualname}",
               message=f"`{unparse(n)}` in {h.qualname}: the request lock must be one asyncio.Lock() per request, created once")


# --------------------------------------------------------------------------- R2


def r2(ctx):
    p = ctx.prog
    f, g, acq, sync, runs = _recover_facts(ctx)
    ctx.require(bool(runs), "C19.R2: executor.run() not found in _recover")
    ctx.require(bool(acq), "C19.R2: no lock acquisition found in _recover")
    scopes = _lock_scopes(g, acq)
    ctx.require(bool(scopes), "C19.R2: the scope that releases the request locks (async with) was not found")
    later = [("executor.run", c) for c in runs]
    later += [("_inject_tokens", c) for c, _ in stage_calls(p, f, [f"{FM}._inject_tokens"])]
    for label, c in later:
        inside = any(a in scopes for a in ancestors(c))
        exits = [i for s in scopes for i in g.ids_of(s) if g.nodes[i].kind == "with_exit"]
        cid = g.node_containing(c)
        released = bool(exits) and all(g.dominates(exits, i) for i in cid)
        ctx.ob("R2", f"{label} runs after the request locks are released", (not inside) and released, func=f, node=c, instance=f"outside-locks:{label}",
               message=f"{label} executes while the request locks are held: a failure inside the recovery workflow re-enters _recover and waits for the same non-re-entrant locks (deadlock)")


# --------------------------------------------------------------------------- R3


def _is_registry(e) -> bool:
    return e is not None and unparse(e).endswith("._retry_requests")


def _not_none_fact(e, v: bool, name: str, truthy_ok: bool) -> bool:
    """The fact `e evaluates to v` establishes that local `name` is not None: `name is None` false, `name is not None`
    true (also `==` / `!=`, operands swapped, the walrus `(name := ..)` in place of the name); bare `name` true when
    objects of the class are always truthy."""

    def var(x):
        if isinstance(x, ast.NamedExpr) and isinstance(x.target, ast.Name):
            return x.target.id
        return x.id if isinstance(x, ast.Name) else None

    if isinstance(e, ast.Compare) and len(e.ops) == 1 and isinstance(e.ops[0], (ast.Is, ast.IsNot, ast.Eq, ast.NotEq)):
        for x, c in ((e.left, e.comparators[0]), (e.comparators[0], e.left)):
            if isinstance(c, ast.Constant) and c.value is None and var(x) == name:
                return (not v) if isinstance(e.ops[0], (ast.Is, ast.Eq)) else v
        return False
    return truthy_ok and var(e) == name and v is True


def _local_yields_registered(p, f, name: str, ret) -> bool:
    """`return <name>` of `f` (CFG node `ret`) yields the request registered under the requested job name: every
    definition of the local that reaches the return (flow-sensitive) is
      * `<registry>.setdefault(key, ..)`: the registered entry;
      * `<registry>[key]` evaluated where `key in <registry>` is known, or after a store into the registry;
      * `<registry>.get(key)` (no default / None), provided every path from the definition to the return on which
        the definition survives takes an outcome of a test that establishes `<name> is not None` (guard clause,
        if / else, `not` forms alike; walked on the CFG, not on the lexical nesting): a non-None answer is the entry;
      * a fresh `RecoveryRequest(..)`, provided every such path executes `<registry>[key] = <name>` (the explicit
        insertion the creating statement is checked against above);
      * a plain alias of another local that does.
    The key is the job-name parameter (through local aliases)."""
    g = f.cfg
    key_param = f.params[1] if len(f.params) > 1 else None
    truthy_ok = not any(m in p.cls(c).methods for c in p.mro(REQ) if c in p.classes for m in ("__bool__", "__len__"))

    def key_ok(k) -> bool:
        return k is not None and key_param is not None and all(isinstance(strip(o), ast.Name) and strip(o).id == key_param for o in (origins(f, k) or [k]))

    def node_ids(d) -> list[int]:
        if d.kind == "param":
            return [g.entry]
        if d.stmt is None:
            return []
        return (g.node_containing(d.stmt) if d.kind == "walrus" else (g.ids_of(d.stmt) or g.node_containing(d.stmt)))

    def survives_unless(nm: str, d, stop, good) -> bool:
        """Some normal path leads from definition `d` of `nm` to the return without passing another definition of
        `nm`, a node of `stop`, or an edge accepted by `good`."""
        kills = {i for d2 in defs_of(f, nm) if d2 is not d and d2.stmt is not d.stmt for i in node_ids(d2)} - {ret.id}
        seen, todo = set(), list(node_ids(d))
        while todo:
            i = todo.pop()
            if i in seen:
                continue
            seen.add(i)
            for b, k in g.succ[i]:
                if k not in NORMAL or good(i, k):
                    continue
                if b == ret.id:
                    return True
                if b not in kills and b not in stop:
                    todo.append(b)
        return False

    def go(nm: str, use, depth: int) -> bool:
        ds = reaching_defs(f, nm, use)
        if not ds or depth <= 0:
            return False
        for d in ds:
            if d.kind not in ("assign", "walrus") or d.index is not None or d.value is None:
                return False
            o = strip(d.value)
            if isinstance(o, ast.Call) and isinstance(o.func, ast.Attribute) and _is_registry(o.func.value) and o.func.attr == "setdefault" and o.args and key_ok(o.args[0]):
                continue
            if isinstance(o, ast.Call) and isinstance(o.func, ast.Attribute) and _is_registry(o.func.value) and o.func.attr == "get" and o.args and key_ok(o.args[0]):
                dflt = o.args[1] if len(o.args) > 1 else next((k.value for k in o.keywords), None)
                if dflt is not None and not (isinstance(dflt, ast.Constant) and dflt.value is None):
                    return False

                def good(i, k, nm=nm):
                    t = g.nodes[i]
                    return t.kind == "test" and t.ast is not None and k in ("t", "f") and any(
                        _not_none_fact(e, v, nm, truthy_ok) for e, v in implied(t.ast, k == "t"))

                if survives_unless(nm, d, set(), good):
                    return False  # the look-up result can be returned although it may be None
                continue
            if isinstance(o, ast.Subscript) and _is_registry(o.value) and key_ok(o.slice):
                ids = node_ids(d)
                writes = [m.id for m in g.nodes.values() if m.kind == "stmt" and isinstance(m.ast, ast.Assign) and any(
                    isinstance(t_, ast.Subscript) and _is_registry(t_.value) for t_ in m.ast.targets)]
                for i in ids:
                    known = membership_fact(path_facts(g, i), lambda e: key_ok(e), lambda e: "_retry_requests" in unparse(e))
                    if not (known is True or (bool(writes) and g.dominates(writes, i))):
                        return False
                if not ids:
                    return False
                continue
            if isinstance(o, ast.Call) and resolves_to(p, f, o, [REQ], attr_fallback=False):
                stores = {m.id for m in g.nodes.values() if m.kind == "stmt" and isinstance(m.ast, ast.Assign) and isinstance(m.ast.value, ast.Name)
                          and m.ast.value.id == nm and any(isinstance(t_, ast.Subscript) and _is_registry(t_.value) and key_ok(t_.slice) for t_ in m.ast.targets)}
                if survives_unless(nm, d, stores, lambda i, k: False):
                    return False  # the fresh request can be returned without having been registered
                continue
            if isinstance(o, ast.Name) and o.id != nm:
                if not go(o.id, d.stmt if d.kind != "walrus" else d.value, depth - 1):
                    return False
                continue
            return False
        return True

    return go(name, ret.ast, 3)


def r3(ctx):
    p = ctx.prog
    f = p.func(f"{RFM}.get_request")
    g = f.cfg
    susp = g.suspension_nodes()
    ctx.ob("R3", "get_request has no suspension point", not susp and not any(isinstance(n, ast.Await) for n in f.body_nodes()), func=f, node=f.node,
           instance="get_request:atomic",
           message="get_request can be suspended between the look-up and the insertion: two recoveries may create two requests (two locks) for one job")
    ctors = callers_of(p, [REQ])
    ctx.require(bool(ctors), "C19.R3: RecoveryRequest is never constructed")
    for h, c in ctors:
        par = parent(c)
        stored, key = False, None
        if isinstance(par, ast.Call) and isinstance(par.func, ast.Attribute) and par.func.attr == "setdefault" and unparse(par.func.value).endswith("._retry_requests") and len(par.args) == 2 and par.args[1] is c:
            stored, key = True, par.args[0]
        elif isinstance(par, ast.Assign) and any(isinstance(t, ast.Subscript) and unparse(t.value).endswith("._retry_requests") for t in par.targets):
            t = next(t for t in par.targets if isinstance(t, ast.Subscript))
            stored, key = True, t.slice
        elif isinstance(par, ast.Assign) and len(par.targets) == 1 and isinstance(par.targets[0], ast.Name):
            nm = par.targets[0].id
            gh = h.cfg
            for n in gh.nodes.values():
                a = n.ast
                if n.kind == "stmt" and isinstance(a, ast.Assign) and isinstance(a.value, ast.Name) and a.value.id == nm and any(
                        isinstance(t, ast.Subscript) and unparse(t.value).endswith("._retry_requests") for t in a.targets):
                    src = gh.ids_of(par)
                    between = gh.reach(src, avoid=[n.id]) & gh.suspension_nodes()
                    if src and gh.escape(src[0], [n.id]) is None and not {s for s in between if n.id in gh.reach([s])}:
                        t = next(t for t in a.targets if isinstance(t, ast.Subscript))
                        stored, key = True, t.slice
        same_key = key is not None and c.args and unparse(strip(key)) == unparse(strip(c.args[0]))
        in_mgr = h.qualname == f.qualname
        ctx.ob("R3", "a new RecoveryRequest is stored in _retry_requests under its job name by the creating statement", stored and bool(same_key) and in_mgr,
               func=h, node=c, instance=f"request:stored:{h.qualname}",
               message=f"`{unparse(par)[:100]}` in {h.qualname}: the created request is not (atomically) registered under its job name - "
               "concurrent recoveries of the same job would hold different locks")
    # look-up result: every return of get_request yields the registered request
    for n in g.nodes.values():
        if n.kind != "return":
            continue
        v = strip(n.ast.value) if n.ast.value is not None else None
        ok = False
        for o in ([strip(x) for x in origins(f, v)] if v is not None else []):
            if isinstance(o, ast.Subscript) and unparse(o.value).endswith("._retry_requests"):
                ok = True
            if isinstance(o, ast.Call) and isinstance(o.func, ast.Attribute) and o.func.attr in ("setdefault", "get") and unparse(o.func.value).endswith("._retry_requests"):
                ok = o.func.attr == "setdefault"
        if ok and isinstance(v, ast.Subscript) and unparse(v.value).endswith("._retry_requests"):
            known = membership_fact(path_facts(g, n.id), lambda e: unparse(e) == unparse(v.slice), lambda e: "_retry_requests" in unparse(e))
            writes_before = [m.id for m in g.nodes.values() if m.kind == "stmt" and isinstance(m.ast, ast.Assign) and any(
                isinstance(t_, ast.Subscript) and unparse(t_.value).endswith("._retry_requests") for t_ in m.ast.targets)]
            ok = known is True or (bool(writes_before) and g.dominates(writes_before, n.id))
        if not ok and isinstance(v, ast.Name):
            # `request = registry.get(key)` guarded by a None test, with explicit insertion of the fresh request
            ok = _local_yields_registered(p, f, v.id, n)
        ctx.ob("R3", "get_request returns the request registered for the job", ok, func=f, node=n.ast, instance=f"get_request:return:{unparse(n.ast)[:60]}",
               message=f"`{unparse(n.ast)}` does not return the registered request")
    # no path of get_request falls off the end (returning None instead of a request)
    live = g.reach([g.entry], kinds=NORMAL, include_src=True)
    fall = [a for a, k in g.pred[g.exit] if g.nodes[a].kind != "return" and a in live and k in NORMAL] + [
        n.id for n in g.nodes.values() if n.kind == "return" and n.ast.value is None and n.id in live]
    ctx.ob("R3", "every path of get_request returns a request", not fall, func=f, node=f.node, instance="get_request:total",
           message="get_request can fall off its end (returns None): the caller crashes on `.lock` / concurrent recoveries are not serialised",
           witness=g.describe(fall[:1]))
    # a request is identified by the job name it is created for
    rinit = p.func(f"{REQ}.__init__")
    nparam = rinit.params[1] if len(rinit.params) > 1 else None
    nw = [(h, n) for h, n, r, k in attr_writes(p, "name") if h is rinit and k == "assign"]
    ctx.ob("R3", "RecoveryRequest.name is the job name given to the constructor", bool(nw) and all(
        isinstance(strip(n.value), ast.Name) and strip(n.value).id == nparam for h, n in nw if getattr(n, "value", None) is not None), func=rinit, node=rinit.node,
        instance="request:name", message="RecoveryRequest.__init__ does not store its job name: _synchronize_workflows examines the wrong job for this request")
    # who mutates _retry_requests
    mgr_init = p.func(f"{RFM}.__init__")
    reg_writes = list(attr_writes(p, "_retry_requests"))
    ctx.ob("R3", "get_request itself registers new requests", any(h.qualname == f.qualname for h, _, _, _ in reg_writes), func=f, node=f.node,
           instance="get_request:registers", message="get_request never inserts into _retry_requests: every call yields a fresh request with a fresh lock")
    init_ok = any(h is mgr_init and kind == "assign" and isinstance(strip(getattr(n, "value", None) or ast.Constant(value=None)), ast.Dict)
                  and not strip(n.value).keys for h, n, recv, kind in reg_writes)
    ctx.ob("R3", "the request registry starts as an empty dict created in __init__", init_ok, func=mgr_init, node=mgr_init.node, instance="registry:init",
           message="RollbackFailureManager.__init__ does not create the empty `_retry_requests` registry")
    for h, n, recv, kind in reg_writes:
        allowed = h.qualname in (f.qualname, mgr_init.qualname)
        ctx.ob("R3", "_retry_requests is mutated only by __init__ and get_request", allowed, func=h, node=n, instance=f"registry-write:{h.qualname}",
               message=f"{h.qualname} mutates the request registry (`{unparse(n)[:80]}`): requests (and their locks) can be replaced while held")


# --------------------------------------------------------------------------- R4


def r4(ctx):
    p = ctx.prog
    f = p.func(f"{RFM}.is_recovering")
    try:
        st = recovering_statuses(p, f)
    except Uninterpretable as e:
        ctx.require(False, f"C19.R4: {e}")
    want = {"ROLLBACK", "RUNNING", "FIREABLE"}
    extra = sorted(st - want)
    ctx.ob("R4", "is_recovering holds for no status outside {ROLLBACK, RUNNING, FIREABLE}", not extra, func=f, node=f.node, instance="status:subset",
           message=f"is_recovering also holds for {extra}: a job in that state is treated as being regenerated by somebody else, so nobody regenerates it (waiters hang)")
    for m in sorted(want):
        ctx.ob("R4", f"is_recovering holds for {m}", m in st, func=f, node=f.node, instance=f"status:{m}",
               message=f"is_recovering is False for {m}: a producer already claimed / running in another recovery is rolled back a second time")


def _ports_owner(f, expr, depth=2):
    """Expressions X such that `expr` denotes `X.ports[...]` (through cast / local aliases)."""
    out = []
    for o in origins(f, expr):
        o = strip(o)
        if isinstance(o, ast.Subscript) and isinstance(o.value, ast.Attribute) and o.value.attr == "ports":
            out.append(o.value.value)
        elif isinstance(o, ast.Call) and isinstance(o.func, ast.Attribute) and o.func.attr == "get" and isinstance(o.func.value, ast.Attribute) and o.func.value.attr == "ports":
            out.append(o.func.value.value)
    return out


def _decision(ctx, rule):
    p = ctx.prog
    f = p.func(f"{RFM}._synchronize_workflows")
    try:
        return recovering_decision(p, f, f"{RFM}._update_request")
    except Uninterpretable as e:
        ctx.require(False, f"C19.{rule}: {e}")


def _lock_scopes(g, acq):
    """The `async with` statements whose exit releases the acquired request locks."""
    scopes = []
    for nid, x, loop, call in acq:
        n = g.nodes[nid]
        if n.kind == "with_enter":
            scopes.append(n.ast)
        elif call is not None:
            st = unparse(call.func.value)
            for a in ancestors(x):
                if isinstance(a, (ast.AsyncWith, ast.With)) and any(isinstance(it.optional_vars, ast.Name) and it.optional_vars.id == st for it in a.items):
                    scopes.append(a)
    return scopes


# --------------------------------------------------------------------------- R5


def _handover_contexts(p, f, in_branch, is_req, is_running, is_new, depth=2, seen=frozenset(), site=None):
    """[(function, in_branch, is_req, is_running, is_new, (caller, call) | None)]: `f` itself and the same-module functions it delegates to
    from inside the branch (`self._helper(..)` / `_helper(..)` resolved to one definition; `depth` levels).  The
    predicates recognise, in each function, the expressions denoting the request of the job, the recovery workflow it
    is running in, and the new recovery workflow: in a helper these are the parameters (never rebound) that the call
    site binds to such expressions."""
    out = [(f, in_branch, is_req, is_running, is_new, site)]
    if depth <= 0:
        return out
    for c in f.calls():
        fn = c.func
        if not (isinstance(fn, ast.Name) or (isinstance(fn, ast.Attribute) and isinstance(fn.value, ast.Name) and fn.value.id in ("self", "cls"))):
            continue
        qs = p.resolve_call(f, c, fanout=False)
        h = p.functions.get(qs[0]) if len(qs) == 1 else None
        if h is None or h is f or h.module is not f.module or h.qualname in seen or not in_branch(c):
            continue
        b = bind_args(h.node, c, bound=h.cls is not None)
        if b is None:
            continue

        def bound_to(pred, b=b):
            return {pn for pn, a in b.items() if all(pred(strip(o)) for o in (origins(f, a) or [a]))}

        def param_in(names, h=h):
            return lambda x: isinstance(x, ast.Name) and x.id in names and all(d.kind == "param" for d in defs_of(h, x.id))

        req2, run_p, new2 = param_in(bound_to(is_req)), param_in(bound_to(is_running)), param_in(bound_to(is_new))

        def run2(x, req2=req2, run_p=run_p):
            return run_p(x) or (isinstance(x, ast.Attribute) and x.attr == "workflow" and req2(x.value))

        out += _handover_contexts(p, h, lambda c_: True, req2, run2, new2, depth - 1, seen | {f.qualname}, (f, c))
    return out


def _handover(p, h, in_branch, is_req, is_running, is_new, _site=None):
    """The hand-over obligations of R5 evaluated on the statements of `h` that lie in the recovering branch."""
    g = h.cfg
    add_inter = p.func("streamflow.workflow.port.InterWorkflowPort.add_inter_port")
    job_token = lambda n: isinstance(n, ast.Call) and resolves_to(p, h, n, ["streamflow.workflow.utils.get_job_token"], attr_fallback=False)  # noqa: E731
    rules = [c for c in h.calls() if isinstance(c.func, ast.Attribute) and c.func.attr == "add_inter_port"]
    in_yes = [c for c in rules if in_branch(c)]
    ok, msg = False, "no add_inter_port in the recovering branch"
    for c in in_yes:
        b = bind_args(add_inter.node, c) or {}
        act = b.get("boundary_action")
        acts = [strip(o) for o in origins(h, act)] if act is not None else []
        is_prop = len(acts) == 1 and isinstance(acts[0], ast.Attribute) and acts[0].attr == "PROPAGATE" and p.resolve_expr(h.module, acts[0].value) == "streamflow.workflow.port.BoundaryAction"
        on_running = any(is_running(strip(o)) for owner in _ports_owner(h, c.func.value) for o in origins(h, owner))
        port = b.get("port")
        to_new = port is not None and mentions(
            h, port, lambda n: isinstance(n, ast.Call) and resolves_to(p, h, n, [f"{FM}._get_recovery_port"], attr_fallback=False)
            and any(is_new(a) for a in n.args[-1:]) or (isinstance(n, ast.Attribute) and n.attr == "ports" and is_new(n.value)))
        tags = b.get("boundary_tags")
        keyed = False
        for o in origins(h, tags) if tags is not None else []:
            o = strip(o)
            if isinstance(o, (ast.List, ast.Tuple)) and len(o.elts) == 1:
                e = strip(o.elts[0])
                if isinstance(e, ast.Attribute) and e.attr == "tag":
                    keyed = mentions(h, e.value, job_token)
        ok = is_prop and on_running and to_new and keyed
        msg = f"`{unparse(c)[:120]}`: PROPAGATE={is_prop}, installed on the running recovery workflow={on_running}, towards the new workflow's port={to_new}, keyed by the job token's tag={keyed}"
        if ok:
            break
    # the outputs the running job will deliver become roots of the new recovery (nothing above them is re-run)
    moves = [c for c in h.calls() if resolves_to(p, h, c, ["streamflow.recovery.utils.GraphMapper.move_token_to_root"], attr_fallback=False)]
    okm = False
    for c in moves:
        lp = next((a for a in ancestors(c) if isinstance(a, ast.For)), None)
        if lp is None or not in_branch(c):
            continue
        succ_of_job = mentions(h, lp.iter, lambda n: isinstance(n, ast.Call) and isinstance(n.func, ast.Attribute) and n.func.attr == "successors"
                               and mentions(h, n, job_token), depth=1)
        okm = okm or (succ_of_job and isinstance(lp.target, ast.Name) and bool(c.args) and isinstance(c.args[0], ast.Name) and c.args[0].id == lp.target.id)
    # the promoted tokens are the ones handed over
    acc = False
    for c in in_yes:
        lp2 = next((a for a in ancestors(c) if isinstance(a, ast.For)), None)
        names2 = {n.id for n in ast.walk(lp2.iter) if isinstance(n, ast.Name)} if lp2 is not None else set()
        for m_ in moves:
            lp1 = next((a for a in ancestors(m_) if isinstance(a, ast.For)), None)
            if lp1 is None or not m_.args or not isinstance(m_.args[0], ast.Name):
                continue
            for a in h.calls():
                if isinstance(a.func, ast.Attribute) and a.func.attr in ("add", "append") and isinstance(a.func.value, ast.Name) and a.func.value.id in names2 \
                        and a.args and isinstance(a.args[0], ast.Name) and a.args[0].id == m_.args[0].id and any(x is lp1 for x in ancestors(a)):
                    gi, ai = g.ids_of(lp1), g.node_containing(a)
                    body = [b for i in gi for b in succ(g, i, "t")]
                    if not any(g.path(b, gi, avoid=ai) for b in body if b not in ai):
                        acc = True
    okm = okm and acc
    # successors are read only when the job token is part of the graph
    unguarded = False
    for c in h.calls():
        if isinstance(c.func, ast.Attribute) and c.func.attr == "successors" and in_branch(c):
            fx = expr_facts(c) + [x for i in g.node_containing(c) for x in path_facts(g, i)]
            guard = [v for e, v in fx if isinstance(e, ast.Call) and isinstance(e.func, ast.Attribute) and e.func.attr == "contains"
                     and c.args and e.args and unparse(e.args[0]) == unparse(c.args[0])]
            if guard and not all(guard):
                unguarded = True
    return {"func": h, "ok": ok, "msg": msg, "in_yes": in_yes, "okm": okm, "moves": moves, "unguarded": unguarded}


def _rollback_sites(p, h, is_req, is_new):
    """(`_update_request` calls of `h`, their CFG nodes, the statements recording a workflow in the request, every one
    of them records the new recovery workflow)."""
    g = h.cfg
    upd = [c for c in h.calls() if resolves_to(p, h, c, [f"{RFM}._update_request"], attr_fallback=False)]
    uids = [i for c in upd for i in g.node_containing(c)]
    recs = [n for n in g.nodes.values() if n.kind == "stmt" and isinstance(n.ast, ast.Assign) and any(
        isinstance(x, ast.Attribute) and x.attr == "workflow" and is_req(x.value) for x in n.ast.targets)]
    return upd, uids, recs, all(is_new(strip(n.ast.value)) for n in recs)


def r5(ctx):
    p = ctx.prog
    f = p.func(f"{RFM}._synchronize_workflows")
    g = f.cfg
    # the test that separates the hand-over from the rollback (direct call, boolean local, extracted predicate or
    # a snapshot of is_recovering answers - where the answer is evaluated is R7's business)
    dec = _decision(ctx, "R5")
    t = dec.test
    yes_reg, no_reg = region(g, t.id, dec.yes), region(g, t.id, dec.no)
    loop = next((a for a in ancestors(t.ast) if isinstance(a, ast.For)), None)
    ctx.require(loop is not None and isinstance(loop.target, ast.Name), "C19.R5: the is_recovering test is not in the loop over the requests")
    req = loop.target.id
    heads = g.ids_of(loop)
    wfp = next((a for a in f.params if p.ann_to_class(f.module, f.param_annotation(a)) == "streamflow.core.workflow.Workflow"), None)
    ctx.require(wfp is not None, "C19.R5: _synchronize_workflows has no Workflow parameter")
    # recovering branch: evaluated where the hand-over is written - in the branch itself or in a method / function the
    # branch delegates to (split method, refactoring B20-3: the resolved call is followed, the request / the running
    # workflow / the new workflow being the parameters bound to them)
    def in_yes_only(c):
        ids = g.node_containing(c)
        return bool(ids) and all(i in yes_reg and i not in no_reg for i in ids)

    def in_no_only(c):
        ids = g.node_containing(c)
        return bool(ids) and all(i in no_reg and i not in yes_reg for i in ids)

    def the_req(x):
        return isinstance(x, ast.Name) and x.id == req

    def the_running(x):
        return isinstance(x, ast.Attribute) and x.attr == "workflow" and the_req(x.value)

    def the_new(x):
        return isinstance(x, ast.Name) and x.id == wfp

    results = [_handover(p, *cx) for cx in _handover_contexts(p, f, in_yes_only, the_req, the_running, the_new)]
    best = next((r for r in results if r["ok"]), None) or next((r for r in results if r["in_yes"]), None) or results[0]
    ctx.ob("R5", "a job already being recovered forwards its outputs to the new recovery workflow (PROPAGATE keyed by the job token's tag)", best["ok"], func=best["func"],
           node=(best["in_yes"][0] if best["in_yes"] else t.ast), instance="handover:propagate", message=best["msg"])
    bestm = next((r for r in results if r["okm"]), None) or next((r for r in results if r["moves"]), None) or results[0]
    okm = bestm["okm"] and not any(r["unguarded"] for r in results)
    ctx.ob("R5", "outputs of a job that is already being recovered are moved to the roots of the new token graph", okm, func=bestm["func"],
           node=(bestm["moves"][0] if bestm["moves"] else t.ast), instance="handover:roots",
           message="the successors of a recovering job's token are not promoted with move_token_to_root: their producers are re-executed by both recoveries")
    # _get_recovery_port: the new workflow's port with the name of the port holding the token; created only when
    # it is missing or not an inter-workflow port
    h = p.func(f"{FM}._get_recovery_port")
    gh = h.cfg
    rets = [n for n in gh.nodes.values() if n.kind == "return" and n.ast.value is not None]
    newp = h.params[3] if len(h.params) > 3 else None
    ctx.require(newp is not None and len(rets) >= 1, "C19.R5: _get_recovery_port changed shape")
    okg, why = True, []
    lookups = [n for n in h.body_nodes() if isinstance(n, ast.comprehension) and any(isinstance(x, ast.Attribute) and x.attr == "port_tokens" for x in ast.walk(n.iter))]
    tok = h.params[0]
    holds = any(any(isinstance(e, ast.Compare) and len(e.ops) == 1 and isinstance(e.ops[0], ast.In) and v and isinstance(e.left, ast.Name) and e.left.id == tok
                    for cond in n.ifs for e, v in implied(cond, True)) for n in lookups)
    if not holds:
        okg = False
        why.append("the port name is not looked up as the port whose tokens contain token_id")

    def in_ports(e):
        return mentions(h, e, lambda k: isinstance(k, ast.Attribute) and k.attr == "ports" and isinstance(k.value, ast.Name) and k.value.id == newp, depth=0)

    def is_iw(e):
        return isinstance(e, ast.Call) and isinstance(e.func, ast.Name) and e.func.id == "isinstance" and len(e.args) == 2 and p.resolve_expr(
            h.module, e.args[1]) == "streamflow.workflow.port.InterWorkflowPort"

    n_existing = n_created = 0
    for n, (v, at) in [(n, ve) for n in rets for ve in returned_exprs(h, n.ast, with_stmt=True)]:
        # `tmp = <expr>; return tmp` reads like `return <expr>`: the facts are those known where <expr> is evaluated
        v = strip(v)
        facts = path_facts(gh, n.id) + ([x for i in gh.ids_of(at) for x in path_facts(gh, i)] if at is not n.ast else [])
        present = membership_fact(facts, lambda e: isinstance(e, ast.Name), in_ports)
        if isinstance(v, ast.Subscript) and in_ports(v.value):
            n_existing += 1
            if not (present is True and has_fact(facts, is_iw, True)):
                okg = False
                why.append("an existing port is returned without `name in ports and isinstance(port, InterWorkflowPort)` being established")
        elif isinstance(v, ast.Call) and isinstance(v.func, ast.Attribute) and v.func.attr == "create_port" and isinstance(v.func.value, ast.Name) and v.func.value.id == newp:
            n_created += 1
            if present is True and has_fact(facts, is_iw, True):
                okg = False
                why.append("a port is re-created although an inter-workflow port of that name exists: its tokens and boundary rules are lost")
        else:
            okg = False
            why.append(f"unexpected return `{unparse(v)[:60]}`")
    if not (n_existing and n_created):
        okg = False
        why.append("both the `existing port` and the `create port` outcome are required")
    ctx.ob("R5", "_get_recovery_port returns the new workflow's inter-workflow port of that name, creating it only when missing", okg, func=h, node=h.node,
           instance="handover:port", message="; ".join(why))
    # other branch: update then record - written in the branch, or in a same-module function the branch delegates to
    # (the call site then stands for what the function does on every normal path)
    upd, uids, recs, ok_val = _rollback_sites(p, f, the_req, the_new)
    rids = [n.id for n in recs]
    u_sites, r_sites, must_r, need_outer = list(uids), list(rids), list(rids), []
    any_recs = bool(recs)
    delegates = []
    for h_, _ib, rq_, _run, nw_, site in _handover_contexts(p, f, in_no_only, the_req, the_running, the_new, depth=1)[1:]:
        hu, huids, hrecs, hval = _rollback_sites(p, h_, rq_, nw_)
        if not hu and not hrecs:
            continue
        gh_ = h_.cfg
        sids = g.node_containing(site[1])
        if h_.is_async and not is_awaited(site[1]):
            continue  # (reported by R6: the coroutine never runs)
        delegates.append(h_.qualname)
        if hu and gh_.escape(gh_.entry, huids) is None:
            u_sites += sids
        if hrecs:
            any_recs = True
            ok_val = ok_val and hval
            hr = [n.id for n in hrecs]
            r_sites += sids
            if gh_.escape(gh_.entry, hr) is None:
                must_r += sids
            if not (bool(huids) and all(gh_.dominates(huids, i) for i in hr)):
                need_outer.append(sids)
    ok_val = any_recs and ok_val
    ok_branch = bool(r_sites) and all(i in no_reg and i not in yes_reg for i in r_sites)
    ok_order = bool(u_sites) and all(g.dominates(u_sites, i) for i in rids) and all(u in no_reg for u in u_sites) and all(
        bool([u for u in u_sites if u not in sids]) and g.dominates([u for u in u_sites if u not in sids], i) for sids in need_outer for i in sids)
    esc = None
    for s in succ(g, t.id, dec.no):
        if s in must_r:
            continue
        esc = esc or g.path(s, [g.exit, *heads], avoid=must_r)
    ctx.ob("R5", "a job that is rolled back is counted/claimed first and then bound to the new recovery workflow, on every path",
           ok_val and ok_branch and ok_order and esc is None, func=f, node=(recs[0].ast if recs else t.ast), instance="handover:record",
           message=f"rollback branch: records the new workflow={ok_val}, only in the rollback branch={ok_branch}, after `await _update_request`={ok_order}, on every path={esc is None}",
           witness=g.describe(esc or []))
    # a function the rollback branch delegates to acts under the locks as long as nobody else calls it
    delegates = [q for q in delegates if all(h2.qualname == f.qualname or h2.qualname in delegates for h2, _c in callers_of(p, [q]))]
    # _update_request claims the job (ROLLBACK) after counting
    u = p.func(f"{RFM}._update_request")
    gu = u.cfg
    claims = []
    for c in u.calls():
        if isinstance(c.func, ast.Attribute) and c.func.attr == "notify_status":
            b = bind_args(p.func("streamflow.core.scheduling.Scheduler.notify_status").node, c) or {}
            st = b.get("status")
            st = strip(st) if st is not None else None
            if isinstance(st, ast.Attribute) and st.attr == "ROLLBACK" and p.resolve_expr(u.module, st.value) == STATUS and is_awaited(c):
                jn = b.get("job_name")
                if isinstance(jn, ast.Name) and jn.id in u.params:
                    claims.append(c)
    cids = [i for c in claims for i in gu.node_containing(c)]
    incs = [n.id for n in gu.nodes.values() if n.kind == "stmt" and isinstance(n.ast, (ast.AugAssign, ast.Assign)) and any(
        isinstance(x, ast.Attribute) and x.attr == "version" and isinstance(x.ctx, ast.Store) for x in ast.walk(n.ast))]
    ok = bool(cids) and bool(incs) and all(gu.escape(i, cids) is None for i in incs)
    ctx.ob("R5", "a counted rollback marks the job ROLLBACK (so concurrent recoveries see it as being recovered)", ok, func=u, node=(claims[0] if claims else u.node),
           instance="handover:claim", message="after incrementing the counter _update_request does not always await notify_status(job_name, Status.ROLLBACK): "
           "a concurrent recovery needing the same producer rolls it back again")
    # who writes RecoveryRequest.workflow
    init = p.func(f"{REQ}.__init__")
    for h, n, recv, kind in attr_writes(p, "workflow"):
        if kind != "assign":
            continue
        t_ = p.type_of(h, recv)
        is_req = (h.cls is not None and h.cls.qualname == REQ and isinstance(recv, ast.Name) and recv.id == "self") or t_ == REQ
        if not is_req and h.qualname == f.qualname and isinstance(recv, ast.Name) and recv.id == req:
            is_req = True
        if not is_req:
            continue
        ctx.ob("R5", "RecoveryRequest.workflow is written only by __init__ and (under the locks) by _synchronize_workflows", h.qualname in (init.qualname, f.qualname, *delegates),
               func=h, node=n, instance=f"workflow-write:{h.qualname}", message=f"{h.qualname} rebinds a request's workflow outside the lock-protected synchronisation")
    ctx.ob("R5", "RecoveryRequest.workflow is initialised by __init__", any(h_ is init for h_, n_, r_, k_ in attr_writes(p, "workflow") if k_ == "assign"),
           func=init, node=init.node, instance="workflow-init", message="RecoveryRequest.__init__ does not initialise `workflow` (a __slots__ attribute): the recovering branch fails with AttributeError")
    # _update_request / _synchronize_workflows are only entered under the locks
    for callee, owner in ((f"{RFM}._update_request", f.qualname), (f"{RFM}._synchronize_workflows", f"{RFM}._recover")):
        sites = callers_of(p, [callee])
        if not sites and callee.endswith("._update_request"):
            # the function exists but the rollback branch no longer counts / claims the job: a violation, not a vanished anchor
            ctx.ob("R5", "_update_request is called from _synchronize_workflows (under the request locks)", False, func=f, node=t.ast, instance="caller:_update_request:none",
                   message="nobody calls _update_request: a rolled-back job is neither counted against the retry limit nor marked ROLLBACK")
            continue
        ctx.require(bool(sites), f"C19.R5: {callee} is never called")
        for h, c in sites:
            ctx.ob("R5", f"{callee.rpartition('.')[2]} is called only from {owner.rpartition('.')[2]} (under the request locks)",
                   h.qualname == owner or (owner == f.qualname and h.qualname in delegates), func=h, node=c,
                   instance=f"caller:{callee.rpartition('.')[2]}:{h.qualname}", message=f"{h.qualname} calls {callee.rpartition('.')[2]} outside the lock-protected path")


def r6(ctx):
    """No coroutine of the synchronisation path is created without being awaited (an un-awaited lock
    acquisition or `is_recovering()` silently disables the protocol)."""
    names = [f"{RFM}._recover", f"{RFM}._synchronize_workflows", f"{RFM}._update_request", f"{RFM}.is_recovering", f"{RFM}.get_request", f"{FM}._get_recovery_port"]
    check_awaited(ctx, "R6", names)
    check_defined(ctx, "R6", names, classes=[RFM, REQ])


# --------------------------------------------------------------------------- R7


def r7(ctx):
    """The answer to `is this job already being recovered` is obtained while the request locks are held."""
    p = ctx.prog
    f = p.func(f"{RFM}._synchronize_workflows")
    dec = _decision(ctx, "R7")
    what = "the hand-over / rollback decision uses an is_recovering() answer obtained while the request locks are held"
    if not dec.traced:
        ctx.ob("R7", what, False, func=f, node=dec.test.ast, instance="decision:source",
               message=f"_synchronize_workflows chooses between hand-over and rollback by `{unparse(dec.cond)[:80]}`, which is not the answer of an is_recovering() "
               "call: whether another recovery already re-executes the job is not asked of the scheduler under the request lock")
        return
    rec, g, acq, sync, runs = _recover_facts(ctx)
    scopes = _lock_scopes(g, acq)
    heads = sorted({i for _, _, loop, _ in acq if loop is not None for i in g.ids_of(loop)} | {nid for nid, _, loop, _ in acq if loop is None})
    seen = set()
    for h, c in dec.calls:
        if id(c) in seen:
            continue
        seen.add(id(c))
        if not dec.snapshot or h is f:
            # evaluated by the test itself / inside _synchronize_workflows, which only runs under the locks (R1, R5)
            ok, where = True, ""
        elif h is rec:
            cid = g.node_containing(c)
            inside = any(a in scopes for a in ancestors(c))
            after = bool(heads) and bool(cid) and all(g.dominates(heads, i) for i in cid) and not any(nid in g.reach(cid) for nid, _, _, _ in acq)
            ok = inside and after
            where = "before the request locks are acquired" if not after else "after the request locks were released"
            if ok:
                where = ""
        else:
            ok, where = False, f"in {h.qualname}, outside the lock scope of _recover"
        ctx.ob("R7", what, ok, func=h, node=c, instance=f"decision:under-locks:{h.name}",
               message=f"`{unparse(c)}` in {h.name} is evaluated {where}; _synchronize_workflows later decides on that snapshot (`{unparse(dec.atom)[:60]}`) "
               "while holding the locks: a concurrent recovery that rolled the job back in between is not seen - every waiting recovery takes the rollback "
               "branch, the producer is re-executed once per recovery and nothing is shared")


RULES = [("R1", r1), ("R2", r2), ("R3", r3), ("R4", r4), ("R5", r5), ("R6", r6), ("R7", r7)]
FLOORS = {"R1": 5, "R2": 2, "R3": 8, "R4": 4, "R5": 9, "R6": 14, "R7": 1}

_REC = f"{RFM}._recover"
_SYNC = f"{RFM}._synchronize_workflows"
_GET = f"{RFM}.get_request"
_GET_BODY = ("    if job_name in self._retry_requests.keys():\n        return self._retry_requests[job_name]\n    else:\n"
             "        return self._retry_requests.setdefault(job_name, RecoveryRequest(job_name))")

# the text between the is_recovering test of _synchronize_workflows and the synchronising call of _recover (the two
# methods are adjacent in the class): a variant that changes both ends needs it as one contiguous span
_SYNC_HEAD = ("retry_requests: MutableSequence[RecoveryRequest], workflow: Workflow) -> None:\n        for retry_request in retry_requests:\n"
              "            job_name = retry_request.name\n            if await self.is_recovering(job_name):\n")
_SYNC_TO_RECOVER = (
    "                job_token = get_job_token(job_name, job_tokens)\n"
    "                if logger.isEnabledFor(logging.DEBUG):\n"
    "                    logger.debug(f'Synchronizing rollbacks for failed job {failed_job}: Job {job_name} is currently executing.')\n"
    "                available_tokens = set()\n"
    "                for token_id in mapper.dag_tokens.successors(job_token.persistent_id) if mapper.dag_tokens.contains(job_token.persistent_id) else []:\n"
    "                    mapper.move_token_to_root(token_id)\n"
    "                    available_tokens.add(token_id)\n"
    "                for token_id in available_tokens & mapper.token_instances.keys():\n"
    "                    new_port = _get_recovery_port(token_id, mapper, retry_request.workflow, workflow)\n"
    "                    cast(InterWorkflowPort, retry_request.workflow.ports[new_port.name]).add_inter_port(port=new_port, boundary_tags=[job_token.tag], boundary_action=BoundaryAction.PROPAGATE)\n"
    "            else:\n"
    "                if logger.isEnabledFor(logging.DEBUG):\n"
    "                    logger.debug(f'Synchronizing rollbacks for failed job {failed_job}: Job {job_name} rollback')\n"
    "                await self._update_request(job_name)\n"
    "                retry_request.workflow = workflow\n"
    "\n"
    "    async def _recover(self, failed_job: Job, failed_step: Step) -> None:\n"
    "        workflow = failed_step.workflow\n"
    "        workflow_builder = WorkflowBuilder(database=workflow.context.database, deep_copy=False)\n"
    "        new_workflow = await workflow_builder.load_workflow(workflow.persistent_id)\n"
    "        provenance = ProvenanceGraph(workflow.context)\n"
    "        await provenance.build_graph(inputs=[*failed_job.inputs.values(), *(p.token_list[0] for p in failed_step.get_input_ports().values() if isinstance(p, ConnectorPort)), "
    "*(get_job_token(failed_job.name, p.token_list) for p in failed_step.get_input_ports().values() if isinstance(p, JobPort))])\n"
    "        mapper = await create_graph_mapper(self.context, provenance)\n"
    "        job_tokens = list(filter(lambda t: isinstance(t, JobToken), mapper.token_instances.values()))\n"
    "        retry_requests = [self.get_request(job_name) for job_name in {*(t.value.name for t in job_tokens), failed_job.name}]\n")
_LOCKS = ("        async with contextlib.AsyncExitStack() as exit_stack:\n            for request in sorted(retry_requests, key=id):\n"
          "                await exit_stack.enter_async_context(request.lock)\n")
_SYNC_CALL = "            await self._synchronize_workflows(failed_job=failed_job.name, job_tokens=job_tokens, mapper=mapper, retry_requests=retry_requests, workflow=new_workflow)"
_SNAP_HEAD = ("retry_requests: MutableSequence[RecoveryRequest], workflow: Workflow, recovering) -> None:\n        for retry_request in retry_requests:\n"
              "            job_name = retry_request.name\n            if job_name in recovering:\n")
_SNAP_CALL = _SYNC_CALL.replace("workflow=new_workflow)", "workflow=new_workflow, recovering=recovering)")
_SNAP_SET = "recovering = {request.name for request in retry_requests if await self.is_recovering(request.name)}\n"
_SNAP_LOOP = ("recovering = set()\n        for rq in retry_requests:\n            if not await self.is_recovering(rq.name):\n                continue\n"
              "            recovering.add(rq.name)\n")

# ---- refactoring B20-3: the recovering branch of _synchronize_workflows split off into a method of its own
_YES_BODY = _SYNC_TO_RECOVER[:_SYNC_TO_RECOVER.index("            else:\n")]
_ELSE_BODY = _SYNC_TO_RECOVER[_SYNC_TO_RECOVER.index("            else:\n"):_SYNC_TO_RECOVER.index("\n    async def _recover(")]
_ATTACH_CALL = "                self._attach_to_running_job(failed_job=failed_job, job_tokens=job_tokens, mapper=mapper, retry_request=retry_request, workflow=workflow)\n"
_ATTACH_DEF = ("\n    def _attach_to_running_job(self, failed_job: str, job_tokens: MutableSequence[Token], mapper: GraphMapper, retry_request: RecoveryRequest, workflow: Workflow) -> None:\n"
               "        job_name = retry_request.name\n" + "".join(ln[8:] + "\n" for ln in _YES_BODY.splitlines()))
_ATTACH_FN_CALL = "                _attach(job_name, job_tokens, mapper, retry_request.workflow, workflow)\n"
_ATTACH_FN = ("def _attach(job_name: str, job_tokens, mapper: GraphMapper, running: Workflow, target: Workflow) -> None:\n"
              + "".join(ln[12:] + "\n" for ln in _YES_BODY.splitlines() if "logger" not in ln).replace("retry_request.workflow", "running").replace(", workflow)", ", target)"))

_ELSE_TAIL = "                await self._update_request(job_name)\n                retry_request.workflow = workflow\n"
_ROLLBACK_CALL = "                await self._rollback_request(job_name, retry_request, workflow)\n"
_ROLLBACK_DEF = ("\n    async def _rollback_request(self, job_name: str, request: RecoveryRequest, new_workflow: Workflow) -> None:\n"
                 "        await self._update_request(job_name)\n        request.workflow = new_workflow\n")

VARIANTS = [
    # ---- R7 (seeded change C19/1): the is_recovering answer is obtained under the request locks
    V("is_recovering snapshot taken before the request locks, decision by membership", FM_FILE, RFM,
      _SYNC_HEAD + _SYNC_TO_RECOVER + _LOCKS + _SYNC_CALL,
      _SNAP_HEAD + _SYNC_TO_RECOVER + "        " + _SNAP_SET + _LOCKS + _SNAP_CALL, "R7", control=True),
    V("is_recovering snapshot filled by a loop before the request locks", FM_FILE, RFM,
      _SYNC_HEAD + _SYNC_TO_RECOVER + _LOCKS + _SYNC_CALL,
      _SNAP_HEAD + _SYNC_TO_RECOVER + "        " + _SNAP_LOOP + _LOCKS + _SNAP_CALL, "R7"),
    V("is_recovering snapshot taken inside the lock scope but before the acquisitions", FM_FILE, RFM,
      _SYNC_HEAD + _SYNC_TO_RECOVER + _LOCKS + _SYNC_CALL,
      _SNAP_HEAD + _SYNC_TO_RECOVER + _LOCKS.replace("exit_stack:\n", "exit_stack:\n            " + _SNAP_SET) + _SNAP_CALL, "R7"),
    V("hand-over decided by the request's recorded workflow instead of is_recovering", FM_FILE, _SYNC, "if await self.is_recovering(job_name):",
      "if retry_request.workflow is not None:", "R7"),
    V("is_recovering snapshot taken in _recover after all locks are held", FM_FILE, RFM,
      _SYNC_HEAD + _SYNC_TO_RECOVER + _LOCKS + _SYNC_CALL,
      _SNAP_HEAD + _SYNC_TO_RECOVER + _LOCKS + "            " + _SNAP_SET + _SNAP_CALL, None),
    V("is_recovering answers collected at the start of _synchronize_workflows (under the locks)", FM_FILE, _SYNC,
      "    for retry_request in retry_requests:\n        job_name = retry_request.name\n        if await self.is_recovering(job_name):",
      "    active = {r.name: await self.is_recovering(r.name) for r in retry_requests}\n    for retry_request in retry_requests:\n        job_name = retry_request.name\n        if active[job_name]:", None),
    V("is_recovering answers collected as a set by a loop at the start of _synchronize_workflows", FM_FILE, _SYNC,
      "    for retry_request in retry_requests:\n        job_name = retry_request.name\n        if await self.is_recovering(job_name):",
      "    busy = set()\n    for r in retry_requests:\n        if await self.is_recovering(r.name):\n            busy.add(r.name)\n"
      "    for retry_request in retry_requests:\n        job_name = retry_request.name\n        if job_name in busy:", None),
    V("is_recovering answer through a boolean local", FM_FILE, _SYNC, "        if await self.is_recovering(job_name):",
      "        being_recovered = await self.is_recovering(job_name)\n        if being_recovered:", None),
    V("double negation of the is_recovering answer", FM_FILE, _SYNC, "        if await self.is_recovering(job_name):",
      "        if not (await self.is_recovering(job_name)) is False:", None),
    V("sorted removed from the lock loop", FM_FILE, _REC, "for request in sorted(retry_requests, key=id):", "for request in retry_requests:", "R1", control=True),
    V("sort key depends on mutable state", FM_FILE, _REC, "sorted(retry_requests, key=id)", "sorted(retry_requests, key=lambda r: r.version)", "R1"),
    V("sort direction depends on the failed job", FM_FILE, _REC, "sorted(retry_requests, key=id)", "sorted(retry_requests, key=id, reverse=failed_job.name < 'm')", "R1"),
    V("request lock replaced during synchronisation", FM_FILE, _SYNC, "retry_request.workflow = workflow", "retry_request.workflow = workflow\n            retry_request.lock = asyncio.Lock()", "R1"),
    V("job names not de-duplicated", FM_FILE, _REC, "for job_name in {*(t.value.name for t in job_tokens), failed_job.name}]", "for job_name in [*(t.value.name for t in job_tokens), failed_job.name]]", "R1"),
    V("only the failed job's request is locked", FM_FILE, _REC, "for request in sorted(retry_requests, key=id):", "for request in sorted(retry_requests[:1], key=id):", "R1"),
    V("synchronisation before the locks", FM_FILE, _REC,
      "        for request in sorted(retry_requests, key=id):\n            await exit_stack.enter_async_context(request.lock)\n        await self._synchronize_workflows(failed_job=failed_job.name, job_tokens=job_tokens, mapper=mapper, retry_requests=retry_requests, workflow=new_workflow)",
      "        await self._synchronize_workflows(failed_job=failed_job.name, job_tokens=job_tokens, mapper=mapper, retry_requests=retry_requests, workflow=new_workflow)\n        for request in sorted(retry_requests, key=id):\n            await exit_stack.enter_async_context(request.lock)", "R1"),
    V("lock shared by all requests", REC_FILE, f"{REQ}.__init__", "self.lock: asyncio.Lock = asyncio.Lock()", "self.lock: asyncio.Lock = _GLOBAL_LOCK", "R1"),
    V("executor.run inside the lock scope", FM_FILE, _REC,
      "    executor = StreamFlowExecutor(new_workflow)\n    await executor.run()",
      "    executor = StreamFlowExecutor(new_workflow)\n    async with contextlib.AsyncExitStack() as exit_stack:\n        for request in sorted(retry_requests, key=id):\n            await exit_stack.enter_async_context(request.lock)\n        await executor.run()", "R2", control=True),
    V("token injection inside the lock scope", FM_FILE, _REC,
      "    await _inject_tokens(failed_job=failed_job, failed_step=failed_step, mapper=mapper, workflow=new_workflow)",
      "        await _inject_tokens(failed_job=failed_job, failed_step=failed_step, mapper=mapper, workflow=new_workflow)", "R2"),
    V("get_request does not register the request", FM_FILE, _GET, "return self._retry_requests.setdefault(job_name, RecoveryRequest(job_name))", "return RecoveryRequest(job_name)", "R3", control=True),
    V("get_request suspends between look-up and insertion", FM_FILE, _GET,
      "def get_request(self, job_name: str) -> RecoveryRequest:\n    if job_name in self._retry_requests.keys():",
      "async def get_request(self, job_name: str) -> RecoveryRequest:\n    await asyncio.sleep(0)\n    if job_name in self._retry_requests.keys():", "R3"),
    V("request registered under another key", FM_FILE, _GET, "setdefault(job_name, RecoveryRequest(job_name))", "setdefault(job_name.lower(), RecoveryRequest(job_name))", "R3"),
    V("registry cleared after a recovery", FM_FILE, f"{RFM}._do_handle_failure", "        await self._recover(job, step)", "        await self._recover(job, step)\n        self._retry_requests.pop(job.name, None)", "R3"),
    V("COMPLETED counts as recovering", FM_FILE, f"{RFM}.is_recovering", "Status.FIREABLE)", "Status.FIREABLE, Status.COMPLETED)", "R4", control=True),
    V("ROLLBACK no longer counts as recovering", FM_FILE, f"{RFM}.is_recovering", "(Status.ROLLBACK, Status.RUNNING, Status.FIREABLE)", "(Status.RUNNING, Status.FIREABLE)", "R4"),
    V("workflow recorded before the request is updated", FM_FILE, _SYNC, "            await self._update_request(job_name)\n            retry_request.workflow = workflow",
      "            retry_request.workflow = workflow\n            await self._update_request(job_name)", "R5"),
    V("hand-over rule terminates instead of propagating", FM_FILE, _SYNC, "boundary_action=BoundaryAction.PROPAGATE", "boundary_action=BoundaryAction.TERMINATE", "R5"),
    V("hand-over keyed by the failed job name", FM_FILE, _SYNC, "boundary_tags=[job_token.tag]", "boundary_tags=[failed_job]", "R5"),
    V("hand-over installed on the new workflow", FM_FILE, _SYNC, "cast(InterWorkflowPort, retry_request.workflow.ports[new_port.name])", "cast(InterWorkflowPort, workflow.ports[new_port.name])", "R5"),
    V("shared outputs not promoted to roots", FM_FILE, _SYNC, "                mapper.move_token_to_root(token_id)\n", "", "R5"),
    V("promoted tokens are not collected for the hand-over", FM_FILE, _SYNC, "                available_tokens.add(token_id)\n", "", "R5"),
    V("existing recovery port is re-created", FM_FILE, f"{FM}._get_recovery_port",
      "if port_name not in recovery_workflow.ports.keys() or not isinstance(recovery_workflow.ports[port_name], InterWorkflowPort):",
      "if port_name in recovery_workflow.ports.keys() or not isinstance(recovery_workflow.ports[port_name], InterWorkflowPort):", "R5"),
    V("hand-over port looked up without the token", FM_FILE, f"{FM}._get_recovery_port", " if token_id in curr_tokens))", "))", "R5"),
    V("get_request falls off its end for known jobs", FM_FILE, _GET, "        return self._retry_requests[job_name]\n", "        pass\n", "R3"),
    V("is_recovering not awaited in the synchronisation", FM_FILE, _SYNC, "if await self.is_recovering(job_name):", "if self.is_recovering(job_name):", "R6"),
    V("new workflow not recorded", FM_FILE, _SYNC, "\n            retry_request.workflow = workflow", "", "R5"),
    V("ROLLBACK claim dropped", FM_FILE, f"{RFM}._update_request", "        await self.context.scheduler.notify_status(job_name, Status.ROLLBACK)\n", "", "R5"),
    V("_update_request called outside the locks", FM_FILE, f"{RFM}.recover", "    await self._do_handle_failure(job, step)", "    await self._update_request(job.name)\n    await self._do_handle_failure(job, step)", "R5"),
    V("recovery port through a temporary that is re-created afterwards", FM_FILE, f"{FM}._get_recovery_port",
      "    else:\n        return recovery_workflow.ports[port_name]",
      "    else:\n        _sf_ret = recovery_workflow.ports[port_name]\n        _sf_ret = recovery_workflow.create_port(cls=type(original_workflow.ports[port_name]), name=port_name)\n        return _sf_ret", "R5"),
    # benign
    V("recovery port returned through temporaries (tempret)", FM_FILE, f"{FM}._get_recovery_port",
      "        return recovery_workflow.create_port(cls=type(original_workflow.ports[port_name]), name=port_name)\n    else:\n        return recovery_workflow.ports[port_name]",
      "        _sf_ret = recovery_workflow.create_port(cls=type(original_workflow.ports[port_name]), name=port_name)\n        return _sf_ret\n    else:\n        _sf_ret = recovery_workflow.ports[port_name]\n        return _sf_ret", None),
    V("recovery port: one return at the end", FM_FILE, f"{FM}._get_recovery_port",
      "        return recovery_workflow.create_port(cls=type(original_workflow.ports[port_name]), name=port_name)\n    else:\n        return recovery_workflow.ports[port_name]",
      "        port = recovery_workflow.create_port(cls=type(original_workflow.ports[port_name]), name=port_name)\n    else:\n        port = recovery_workflow.ports[port_name]\n    return port", None),
    V("execution extracted into a helper called after the lock scope", FM_FILE, RFM,
      "        executor = StreamFlowExecutor(new_workflow)\n        await executor.run()\n",
      "        await self._execute(new_workflow)\n\n    async def _execute(self, wf: Workflow) -> None:\n        executor = StreamFlowExecutor(wf)\n        await executor.run()\n", None),
    V("sorted over an explicit set", FM_FILE, _REC, "sorted(retry_requests, key=id)", "sorted(set(retry_requests), key=id)", None),
    V("sort by job name", FM_FILE, _REC, "sorted(retry_requests, key=id)", "sorted(retry_requests, key=lambda r: r.name)", None),
    V("sorted list through a temporary", FM_FILE, _REC, "        for request in sorted(retry_requests, key=id):", "        ordered = sorted(retry_requests, key=id)\n        for request in ordered:", None),
    V("rename the loop variable", FM_FILE, _REC, "for request in sorted(retry_requests, key=id):\n            await exit_stack.enter_async_context(request.lock)",
      "for rq in sorted(retry_requests, key=id):\n            await exit_stack.enter_async_context(rq.lock)", None),
    V("logging in get_request", FM_FILE, _GET, "    else:\n        return self._retry_requests.setdefault", "    else:\n        logger.debug('new request')\n        return self._retry_requests.setdefault", None),
    V("get_request with explicit insertion", FM_FILE, _GET, "        return self._retry_requests.setdefault(job_name, RecoveryRequest(job_name))",
      "        self._retry_requests[job_name] = RecoveryRequest(job_name)\n        return self._retry_requests[job_name]", None),
    # ---- refactoring B14-8: membership test + setdefault replaced by dict.get, a None test and explicit insertion
    V("get_request: dict.get, None test, explicit insertion (walrus)", FM_FILE, _GET, _GET_BODY,
      "    if (request := self._retry_requests.get(job_name)) is None:\n        request = RecoveryRequest(job_name)\n        self._retry_requests[job_name] = request\n    return request", None),
    V("get_request: dict.get with a guard clause on the found request", FM_FILE, _GET, _GET_BODY,
      "    request = self._retry_requests.get(job_name)\n    if request is not None:\n        return request\n    request = RecoveryRequest(job_name)\n"
      "    self._retry_requests[job_name] = request\n    return request", None),
    V("get_request: dict.get with a truthiness test and a key alias", FM_FILE, _GET, _GET_BODY,
      "    key = job_name\n    found = self._retry_requests.get(key)\n    if not found:\n        found = RecoveryRequest(key)\n        self._retry_requests[key] = found\n    result = found\n    return result", None),
    V("get_request: dict.get form with the None test inverted", FM_FILE, _GET, _GET_BODY,
      "    if (request := self._retry_requests.get(job_name)) is not None:\n        request = RecoveryRequest(job_name)\n        self._retry_requests[job_name] = request\n    return request", "R3"),
    V("get_request: dict.get form never inserts the fresh request", FM_FILE, _GET, _GET_BODY,
      "    if (request := self._retry_requests.get(job_name)) is None:\n        request = RecoveryRequest(job_name)\n    return request", "R3"),
    V("get_request: dict.get form inserts only when debugging", FM_FILE, _GET, _GET_BODY,
      "    if (request := self._retry_requests.get(job_name)) is None:\n        request = RecoveryRequest(job_name)\n        if logger.isEnabledFor(logging.DEBUG):\n"
      "            self._retry_requests[job_name] = request\n    return request", "R3"),
    V("get_request: dict.get form returns the look-up result unguarded", FM_FILE, _GET, _GET_BODY,
      "    request = self._retry_requests.get(job_name)\n    if job_name.startswith('/'):\n        request = RecoveryRequest(job_name)\n        self._retry_requests[job_name] = request\n    return request", "R3"),
    V("get_request: dict.get form looks another job up", FM_FILE, _GET, _GET_BODY,
      "    if (request := self._retry_requests.get(self.__class__.__name__)) is None:\n        request = RecoveryRequest(job_name)\n        self._retry_requests[job_name] = request\n    return request", "R3"),
    V("get_request: dict.get form replaces the fresh request after registering it", FM_FILE, _GET, _GET_BODY,
      "    if (request := self._retry_requests.get(job_name)) is None:\n        request = RecoveryRequest(job_name)\n        self._retry_requests[job_name] = request\n"
      "        request = RecoveryRequest(job_name)\n    return request", "R3"),
    V("status set as a frozenset literal order", FM_FILE, f"{RFM}.is_recovering", "(Status.ROLLBACK, Status.RUNNING, Status.FIREABLE)", "[Status.FIREABLE, Status.ROLLBACK, Status.RUNNING]", None),
    # ---- refactoring B20-3 (benign) and its breaking counterparts
    V("recovering branch split off into a method (request and new workflow passed as parameters)", FM_FILE, RFM, _YES_BODY + _ELSE_BODY,
      _ATTACH_CALL + _ELSE_BODY + _ATTACH_DEF, None),
    V("recovering branch split off into a module-level function taking the running workflow", FM_FILE, RFM, _YES_BODY, _ATTACH_FN_CALL, None, append=_ATTACH_FN),
    V("split-off hand-over installs the rule on the new workflow", FM_FILE, RFM, _YES_BODY + _ELSE_BODY,
      _ATTACH_CALL + _ELSE_BODY + _ATTACH_DEF.replace("cast(InterWorkflowPort, retry_request.workflow.ports[new_port.name])", "cast(InterWorkflowPort, workflow.ports[new_port.name])"), "R5"),
    V("split-off hand-over is given the running workflow as the new one", FM_FILE, RFM, _YES_BODY + _ELSE_BODY,
      _ATTACH_CALL.replace("workflow=workflow)", "workflow=retry_request.workflow)") + _ELSE_BODY + _ATTACH_DEF, "R5"),
    V("split-off hand-over no longer promotes the outputs to roots", FM_FILE, RFM, _YES_BODY + _ELSE_BODY,
      _ATTACH_CALL + _ELSE_BODY + _ATTACH_DEF.replace("            mapper.move_token_to_root(token_id)\n", ""), "R5"),
    V("split-off hand-over rebinds its request parameter", FM_FILE, RFM, _YES_BODY + _ELSE_BODY,
      _ATTACH_CALL + _ELSE_BODY + _ATTACH_DEF.replace("        job_name = retry_request.name\n", "        retry_request = self.get_request(failed_job)\n        job_name = retry_request.name\n"), "R5"),
    V("module-level hand-over receives the workflows in the wrong order", FM_FILE, RFM, _YES_BODY,
      _ATTACH_FN_CALL.replace("retry_request.workflow, workflow)", "workflow, retry_request.workflow)"), "R5", append=_ATTACH_FN),
    V("split-off hand-over is invoked in the rollback branch", FM_FILE, RFM, _YES_BODY + _ELSE_BODY,
      "                pass\n" + _ELSE_BODY.replace("                await self._update_request(job_name)\n", "                await self._update_request(job_name)\n" + _ATTACH_CALL) + _ATTACH_DEF, "R5"),
    # ---- the rollback branch split off into a method (same class of refactoring as B20-3)
    V("rollback branch split off into a method (update, then record)", FM_FILE, RFM, _ELSE_TAIL, _ROLLBACK_CALL + _ROLLBACK_DEF, None),
    V("split-off rollback records the workflow before the request is updated", FM_FILE, RFM, _ELSE_TAIL,
      _ROLLBACK_CALL + _ROLLBACK_DEF.replace("        await self._update_request(job_name)\n        request.workflow = new_workflow\n",
                                             "        request.workflow = new_workflow\n        await self._update_request(job_name)\n"), "R5"),
    V("split-off rollback records the workflow only when debugging", FM_FILE, RFM, _ELSE_TAIL,
      _ROLLBACK_CALL + _ROLLBACK_DEF.replace("        request.workflow = new_workflow\n", "        if logger.isEnabledFor(logging.DEBUG):\n            request.workflow = new_workflow\n"), "R5"),
    V("split-off rollback is given the request's old workflow", FM_FILE, RFM, _ELSE_TAIL,
      _ROLLBACK_CALL.replace("retry_request, workflow)", "retry_request, retry_request.workflow)") + _ROLLBACK_DEF, "R5"),
    V("split-off rollback no longer counts the request", FM_FILE, RFM, _ELSE_TAIL,
      _ROLLBACK_CALL + _ROLLBACK_DEF.replace("        await self._update_request(job_name)\n", ""), "R5"),
    V("split-off rollback is also invoked outside the locks", FM_FILE, RFM, _ELSE_TAIL, _ROLLBACK_CALL + _ROLLBACK_DEF, "R5",
      append="async def _force_rollback(fm: RollbackFailureManager, job: Job, step: Step) -> None:\n"
             "    await fm._rollback_request(job.name, fm.get_request(job.name), step.workflow)\n"),
]
