"""CLI: python -m sfverif check Cxx [--tier quick|thorough] | replay <file> | --selfcheck | list"""

from __future__ import annotations

import argparse
import importlib
import json
import os
import sys
import time
import traceback

from . import REPO
from .model import AnalysisError, Program
from .report import Ctx, split_known, write_evidence, write_replay


def load_rules(prop: str):
    return importlib.import_module(f"sfverif.rules.{prop.lower()}")


def run_rules_on(prog: Program, prop: str, mod, tier: str, check_floors: bool = True) -> Ctx:
    ctx = Ctx(prog, prop, tier)
    for rid, fn in mod.RULES:
        ctx.rules_run.append(rid)
        fn(ctx)
    # floors guard against vacuous passes: they only matter when nothing was reported
    if check_floors and not ctx.findings:
        for rid, n in getattr(mod, "FLOORS", {}).items():
            ctx.floor(rid, n)
    return ctx


def check(prop: str, tier: str, root: str = REPO, evidence: bool = True) -> int:
    t0 = time.time()
    mod = load_rules(prop)
    prog = Program(root)
    if prog.stats()["units"] < 90:
        raise AnalysisError(f"only {prog.stats()['units']} units parsed under {root} (floor 90)")
    ctx = run_rules_on(prog, prop, mod, tier)
    known_hit, new = split_known(ctx.findings)
    if not new:
        for rid, n in getattr(mod, "FLOORS", {}).items():
            ctx.floor(rid, n)
    selftest = None
    st_error = None
    variants = list(getattr(mod, "VARIANTS", []))
    if variants:
        from .selftest import run_variants

        def rr(p):
            return run_rules_on(p, prop, mod, tier).findings

        try:
            selftest = run_variants(prog, prop, rr, variants, ctx.findings, only_controls=(tier != "thorough"))
        except AnalysisError as e:
            st_error = e
    extra = None
    if tier == "thorough" and st_error is None and not new:
        from .selftest import benign_regression, seeded_regression

        try:
            sr = seeded_regression(prog, prop, lambda p: run_rules_on(p, prop, mod, tier, check_floors=False).findings, ctx.findings)
            extra = {"seeded_regression": sr}
            extra["benign_regression"] = benign_regression(prog, prop, lambda p: run_rules_on(p, prop, mod, tier, check_floors=False).findings, ctx.findings)
        except AnalysisError as e:
            st_error = e
    if tier == "thorough" and hasattr(mod, "thorough"):
        extra = mod.thorough(ctx)
        known_hit, new = split_known(ctx.findings)
    for f, k in known_hit:
        print(f"KNOWN-FINDING: property={prop} {k.get('what', f.message)} [{f.file}:{f.line} {f.qualname} rule {f.rule}]")
    for o in ctx.observations:
        print(f"OBSERVATION: {o}")
    wall = time.time() - t0
    if evidence:
        write_evidence(prop, tier, ctx, getattr(mod, "META", {}), wall, new, known_hit, selftest, extra)
    st = prog.stats()
    print(
        f"{prop} [{tier}]: {st['units']} units, {st['functions']} functions; "
        f"{len(ctx.obligations)} rule instances over rules {','.join(ctx.rules_run)}; "
        f"{sum(1 for o in ctx.obligations if o['ok'])} hold, {len(known_hit)} known findings, {len(new)} new violations; "
        f"{wall:.2f}s"
        + (f"; self-test variants applied {selftest['variants_applied']}, skipped {selftest['variants_skipped']}" if selftest else "")
        + (f"; seeded changes re-applied {extra['seeded_regression']['applied']} (reported {extra['seeded_regression']['reported']}, skipped {extra['seeded_regression']['skipped']})" if extra and "seeded_regression" in extra else "")
        + (f"; benign refactorings re-applied {extra['benign_regression']['applied']} (silent {extra['benign_regression']['silent']}, skipped {extra['benign_regression']['skipped']})" if extra and "benign_regression" in extra else "")
    )
    if selftest:
        for d in selftest["details"]:
            if d["status"].startswith(("skipped", "inconclusive")):
                print(f"  self-test note: {d['variant']}: {d['status']}")
    if st_error is not None and new:
        print(f"SELFTEST-NOTE (not deciding the exit status while violations are reported): {st_error}")
    if new:
        for i, f in enumerate(new):
            path = write_replay(prop, i, f) if evidence else "(not written)"
            print(f"  {f.file}:{f.line} {f.qualname} [{prop}.{f.rule}] {f.message}")
            for w in f.witness[:12]:
                print(f"      | {w}")
            print(f"VIOLATION property={prop} replay={path}")
        return 1
    if st_error is not None:
        raise st_error
    return 0


def replay(path: str) -> int:
    with open(path) as fh:
        rec = json.load(fh)
    prop = rec["property"]
    mod = load_rules(prop)
    prog = Program(REPO)
    ctx = run_rules_on(prog, prop, mod, "quick")
    for f in ctx.findings:
        if f.key == rec["key"] or (f"{prop}.{f.rule}" == rec["rule"] and f.qualname == rec["qualname"]):
            print(json.dumps(f.to_json(), indent=1))
            print(f"VIOLATION property={prop} replay={path}")
            return 1
    print(f"{rec['rule']} at {rec['qualname']}: no longer reported on the current tree")
    return 0


def main(argv=None) -> int:
    ap = argparse.ArgumentParser(prog="sfverif")
    sub = ap.add_subparsers(dest="cmd")
    c = sub.add_parser("check")
    c.add_argument("prop")
    c.add_argument("--tier", default=os.environ.get("VERIF_TIER", "quick"), choices=["quick", "thorough"])
    c.add_argument("--root", default=REPO)
    c.add_argument("--no-evidence", action="store_true", help="do not (re)write evidence/replay files (tooling runs on scratch trees)")
    r = sub.add_parser("replay")
    r.add_argument("path")
    k = sub.add_parser("keys")
    k.add_argument("prop")
    sub.add_parser("selfcheck")
    sub.add_parser("list")
    a = ap.parse_args(argv)
    try:
        if a.cmd == "check":
            return check(a.prop.upper(), a.tier, a.root, evidence=not a.no_evidence)
        if a.cmd == "replay":
            return replay(a.path)
        if a.cmd == "keys":
            prop = a.prop.upper()
            ctx = run_rules_on(Program(REPO), prop, load_rules(prop), "quick")
            _, new = split_known(ctx.findings)
            print(json.dumps([{"property": prop, "status": "known", "key": f.key, "where": f"{f.qualname} [{f.rule}] {f.instance}", "what": f.message} for f in new], indent=1))
            return 0
        if a.cmd == "selfcheck":
            from .enginetest import selfcheck

            return selfcheck()
        if a.cmd == "list":
            d = os.path.join(os.path.dirname(__file__), "rules")
            for f in sorted(os.listdir(d)):
                if f.startswith("c") and f.endswith(".py"):
                    print(f[:-3].upper())
            return 0
        ap.print_help()
        return 2
    except AnalysisError as e:
        print(f"ANALYSIS-ERROR {e}")
        return 2
    except Exception:  # internal error: never looks like a violation
        print("ANALYSIS-ERROR internal exception")
        traceback.print_exc()
        return 2


if __name__ == "__main__":
    sys.exit(main())
