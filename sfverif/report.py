"""Obligations, findings, known-findings matching, evidence files."""

from __future__ import annotations

import ast
import json
import os
import time
from dataclasses import dataclass, field

from .model import AnalysisError, Func, Program, digest, enclosing_stmt, unparse

VERIF = os.path.dirname(os.path.dirname(os.path.abspath(__file__)))
EVIDENCE_DIR = os.path.join(VERIF, "evidence")
REPLAY_DIR = os.path.join(EVIDENCE_DIR, "replay")
KNOWN = os.path.join(VERIF, "known_findings.json")


def norm_text(node: ast.AST | None) -> str:
    if node is None:
        return ""
    s = enclosing_stmt(node) if not isinstance(node, (ast.stmt, ast.ExceptHandler)) else node
    if s is None:
        s = node
    # compound statements: only their header, so body edits don't move the key
    if isinstance(s, (ast.If, ast.While)):
        return unparse(s.test)
    if isinstance(s, (ast.For, ast.AsyncFor)):
        return f"for {unparse(s.target)} in {unparse(s.iter)}"
    if isinstance(s, (ast.With, ast.AsyncWith)):
        return "with " + ", ".join(unparse(i.context_expr) for i in s.items)
    if isinstance(s, (ast.FunctionDef, ast.AsyncFunctionDef, ast.ClassDef)):
        return f"def {s.name}"
    if isinstance(s, (ast.Try,)):
        return "try"
    if isinstance(s, ast.ExceptHandler):
        return "except " + (unparse(s.type) if s.type else "")
    return " ".join(unparse(s).split())


@dataclass
class Finding:
    property: str
    rule: str
    qualname: str
    file: str
    line: int
    message: str
    instance: str
    witness: list[str] = field(default_factory=list)

    @property
    def key(self) -> str:
        return f"{self.property}.{self.rule}|{self.qualname}|{digest(self.instance)}"

    def to_json(self) -> dict:
        return {
            "property": self.property,
            "rule": f"{self.property}.{self.rule}",
            "qualname": self.qualname,
            "file": self.file,
            "line": self.line,
            "message": self.message,
            "instance": self.instance,
            "key": self.key,
            "witness": self.witness,
        }


class Ctx:
    """Per-run collector handed to every rule."""

    def __init__(self, prog: Program, prop: str, tier: str = "quick"):
        self.prog = prog
        self.prop = prop
        self.tier = tier
        self.findings: list[Finding] = []
        self.obligations: list[dict] = []
        self.observations: list[str] = []
        self.rules_run: list[str] = []
        self._sites: set[str] = set()

    def ob(
        self,
        rule: str,
        what: str,
        ok: bool,
        *,
        func: Func | None = None,
        node: ast.AST | None = None,
        qualname: str | None = None,
        message: str = "",
        witness: list[str] | None = None,
        instance: str | None = None,
        trivial: bool = False,
    ) -> bool:
        """Record one obligation (a rule instance that had something to check)."""
        qn = qualname or (func.qualname if func else "?")
        file = func.file if func else ""
        line = getattr(node, "lineno", None) or (func.lineno if func else 0)
        self.obligations.append(
            {"rule": rule, "what": what, "ok": bool(ok), "where": f"{file}:{line}", "qualname": qn}
        )
        if not trivial:
            self._sites.add(f"{rule}|{qn}|{what}")
        if not ok:
            inst = instance if instance is not None else (norm_text(node) or what)
            self.findings.append(
                Finding(self.prop, rule, qn, file, line, message or what, inst, witness or [])
            )
        return bool(ok)

    def require(self, cond: bool, msg: str) -> None:
        """An analysis precondition (anchor shape the rule needs)."""
        if not cond:
            raise AnalysisError(msg)

    def floor(self, rule: str, n: int) -> None:
        got = sum(1 for o in self.obligations if o["rule"] == rule)
        if got < n:
            raise AnalysisError(
                f"{self.prop}.{rule}: found {got} rule instances, confirmed floor is {n} (rule would pass vacuously)"
            )

    def observe(self, text: str) -> None:
        self.observations.append(text)

    def count(self, rule: str | None = None) -> int:
        return sum(1 for o in self.obligations if rule is None or o["rule"] == rule)


def load_known() -> list[dict]:
    if not os.path.exists(KNOWN):
        return []
    with open(KNOWN) as fh:
        data = json.load(fh)
    return data.get("findings", [])


def split_known(findings: list[Finding]) -> tuple[list[tuple[Finding, dict]], list[Finding]]:
    known = {k["key"]: k for k in load_known() if k.get("status") == "known"}
    hit, new = [], []
    for f in findings:
        if f.key in known:
            hit.append((f, known[f.key]))
        else:
            new.append(f)
    return hit, new


def write_evidence(
    prop: str,
    tier: str,
    ctx: Ctx,
    meta: dict,
    wall_s: float,
    new: list[Finding],
    known_hit: list[tuple[Finding, dict]],
    selftest: dict | None,
    extra: dict | None = None,
) -> str:
    os.makedirs(EVIDENCE_DIR, exist_ok=True)
    obligations = len(ctx.obligations)
    discharged = sum(1 for o in ctx.obligations if o["ok"])
    per_rule: dict[str, dict] = {}
    for o in ctx.obligations:
        r = per_rule.setdefault(o["rule"], {"instances": 0, "ok": 0})
        r["instances"] += 1
        r["ok"] += 1 if o["ok"] else 0
    samples = []
    seen_rules = set()
    for o in ctx.obligations:
        if o["rule"] not in seen_rules or len(samples) < 12:
            seen_rules.add(o["rule"])
            samples.append(o)
        if len(samples) >= 40:
            break
    cov = {
        "explanation": meta.get("explanation", ""),
        "rule": meta.get(
            "rule",
            "every rule instance (anchor x site) found in the parsed program is enumerated; an instance is "
            "non-trivial when the rule had a concrete construct to examine at that site; distinct = distinct "
            "(rule, function, construct) triples",
        ),
        "obligations": obligations,
        "discharged": discharged,
        "evaluations": obligations,
        "distinct_nontrivial": len(ctx._sites),
        "per_rule": per_rule,
        "rules_run": ctx.rules_run,
        "samples": samples,
        "exhaustive": True,
        "units": ctx.prog.stats()["units"],
        "functions": ctx.prog.stats()["functions"],
        "classes": ctx.prog.stats()["classes"],
        "observations": ctx.observations,
        "known_findings": [
            {"key": f.key, "what": k.get("what", ""), "where": f"{f.file}:{f.line}"} for f, k in known_hit
        ],
        "new_violations": [f.to_json() for f in new],
        "undecided": meta.get("undecided", ""),
    }
    if selftest is not None:
        cov["selftest"] = selftest
    if extra:
        cov.update(extra)
    ev = {
        "property_id": prop,
        "tier": tier,
        "seed": int(os.environ.get("VERIF_SEED", "0") or 0),
        "level": "other",
        "coverage": cov,
        "assumptions": meta.get("assumptions", [])
        + [
            "Python ast parser; sfverif CFG/def-use/class-table construction (self-tested)",
            "asyncio is single-threaded: other tasks run only at await points",
            "classes loaded through plugins (streamflow.ext) are outside the parsed program",
        ],
        "wall_s": round(wall_s, 3),
        "violations": len(new),
    }
    path = os.path.join(EVIDENCE_DIR, f"{prop}.json")
    tmp = path + ".tmp"
    with open(tmp, "w") as fh:
        json.dump(ev, fh, indent=1, sort_keys=False)
        fh.write("\n")
    os.replace(tmp, path)
    return path


def write_replay(prop: str, idx: int, f: Finding) -> str:
    os.makedirs(REPLAY_DIR, exist_ok=True)
    path = os.path.join(REPLAY_DIR, f"{prop}-{idx}.json")
    with open(path, "w") as fh:
        json.dump(f.to_json(), fh, indent=1)
        fh.write("\n")
    return path
