"""Checker self-test: in-memory variants of /repo modules (never written to disk).

A variant rewrites the *normalised* (ast.unparse) text of one anchored function,
class or module with a substring replacement that must match exactly once, or
appends code to the module.  Breaking variants must make the named rule fire with a
new finding; benign variants must not add any finding.
"""

from __future__ import annotations

import ast
import textwrap
from dataclasses import dataclass

from .model import AnalysisError, Program


@dataclass
class Variant:
    name: str
    file: str  # relpath under /repo
    target: str | None  # qualname of function/class to rewrite, None = whole module
    old: str | None
    new: str | None
    expect: str | None  # rule id that must fire (breaking) or None (benign)
    append: str | None = None  # text appended to the module
    control: bool = False  # also run in the quick tier (positive control)
    count: int = 1  # number of occurrences `old` must have

    @property
    def breaking(self) -> bool:
        return self.expect is not None


def V(name, file, target, old, new, expect, **kw) -> Variant:
    return Variant(name, file, target, old, new, expect, **kw)


def _locate(prog: Program, file: str, target: str):
    f = prog.functions.get(target)
    if f is not None and f.file == file:
        return f.node
    c = prog.classes.get(target)
    if c is not None and c.file == file:
        return c.node
    return None


def apply_variant(prog: Program, v: Variant) -> str | None:
    """Return the new module source or None when the edit does not apply."""
    m = prog.by_relpath.get(v.file)
    if m is None:
        return None
    src = m.source
    if v.old is not None:
        if v.target is None:
            text = ast.unparse(m.tree)
            if text.count(v.old) != v.count:
                return None
            src = text.replace(v.old, v.new or "")
        else:
            node = _locate(prog, v.file, v.target)
            if node is None:
                return None
            text = ast.unparse(node)
            if text.count(v.old) != v.count:
                return None
            new_text = text.replace(v.old, v.new or "")
            try:
                ast.parse(new_text)
            except SyntaxError:
                return None
            start = min([node.lineno] + [d.lineno for d in node.decorator_list])
            lines = src.splitlines(keepends=True)
            indent = " " * node.col_offset
            repl = textwrap.indent(new_text, indent) + "\n"
            src = "".join(lines[: start - 1]) + repl + "".join(lines[node.end_lineno :])
    if v.append:
        src = src + "\n\n" + textwrap.dedent(v.append) + "\n"
    try:
        ast.parse(src)
    except SyntaxError:
        return None
    return src


def run_variants(prog: Program, prop: str, run_rules, variants: list[Variant], base_findings, only_controls: bool) -> dict:
    """run_rules(prog) -> list[Finding].  Returns a summary; raises AnalysisError on failure."""
    base_keys = {}
    for f in base_findings:
        base_keys[(f.rule, f.qualname)] = base_keys.get((f.rule, f.qualname), 0) + 1
    applied = skipped = 0
    failures: list[str] = []
    details = []
    for v in variants:
        if only_controls and not v.control:
            continue
        src = apply_variant(prog, v)
        if src is None:
            skipped += 1
            details.append({"variant": v.name, "status": "skipped (edit does not apply to current source)"})
            continue
        applied += 1
        vp = prog.with_override(v.file, src)
        try:
            fs = run_rules(vp)
        except AnalysisError as e:
            # a variant that makes the analysis itself refuse is a detection for breaking
            # variants (fail-closed) and a failure for benign ones
            # an analysis error is exit 2, not a report: a breaking variant must be *reported*
            kind = "breaking" if v.breaking else "benign"
            failures.append(f"{kind} variant {v.name!r} made the analysis refuse instead of deciding: {e}")
            continue
        keys = {}
        for f in fs:
            keys[(f.rule, f.qualname)] = keys.get((f.rule, f.qualname), 0) + 1
        new = [k for k, n in keys.items() if n > base_keys.get(k, 0)]
        if v.breaking:
            if any(r == v.expect for r, _ in new):
                details.append({"variant": v.name, "status": "detected", "by": sorted({f"{r}@{q}" for r, q in new})})
            elif any(
                r == v.expect and (v.target is None or q == v.target or q.startswith(v.target + "."))
                for r, q in base_keys
            ):
                details.append({"variant": v.name, "status": "inconclusive (rule already firing on the analysed tree)"})
            else:
                failures.append(
                    f"breaking variant {v.name!r} not detected by {prop}.{v.expect} (new findings: {sorted(new)})"
                )
        else:
            if new:
                failures.append(f"benign variant {v.name!r} raised {sorted(new)}")
            else:
                details.append({"variant": v.name, "status": "silent (benign)"})
    total = applied + skipped
    if failures:
        raise AnalysisError("self-test failed: " + "; ".join(failures))
    if total and applied / total < 0.8 and not only_controls:
        raise AnalysisError(f"self-test: only {applied}/{total} variants apply to the current source")
    return {"variants_applied": applied, "variants_skipped": skipped, "details": details}



def seeded_regression(prog: Program, prop: str, run_rules, base_findings) -> dict:
    """Thorough tier: re-apply every kept seeded change of this property (/verif/seeded/<id>/patch.diff, written by
    independent testers, each confirmed to break the property while the test suite passes) to an in-memory copy of the
    affected modules and require that the rules still report it.  A patch that no longer applies is skipped and counted."""
    import json
    import os
    import re
    import shutil
    import subprocess
    import tempfile

    root = os.path.join(os.path.dirname(os.path.dirname(os.path.abspath(__file__))), "seeded")
    out = {"applied": 0, "skipped": 0, "reported": 0, "details": []}
    if not os.path.isdir(root):
        return out
    base = {}
    for f in base_findings:
        base[(f.rule, f.qualname)] = base.get((f.rule, f.qualname), 0) + 1
    failures = []
    for sid in sorted(os.listdir(root)):
        mp = os.path.join(root, sid, "meta.json")
        pp = os.path.join(root, sid, "patch.diff")
        if not (os.path.exists(mp) and os.path.exists(pp)):
            continue
        meta = json.load(open(mp))
        expected = prop in meta.get("verified", {}).get("detected_by", [])
        if not expected:
            continue
        files = re.findall(r"^\+\+\+ b/(\S+)", open(pp).read(), flags=re.M)
        td = tempfile.mkdtemp(prefix="sfseed")
        try:
            ok = True
            for rel in files:
                m = prog.by_relpath.get(rel)
                if m is None:
                    ok = False
                    break
                os.makedirs(os.path.dirname(os.path.join(td, rel)), exist_ok=True)
                with open(os.path.join(td, rel), "w") as fh:
                    fh.write(m.source)
            if ok:
                r = subprocess.run(["git", "apply", "--whitespace=nowarn", pp], cwd=td, capture_output=True, text=True)
                ok = r.returncode == 0
            if not ok:
                out["skipped"] += 1
                out["details"].append({"seed": sid, "status": "skipped (patch does not apply to the analysed tree)"})
                continue
            vp = prog
            for rel in files:
                vp = vp.with_override(rel, open(os.path.join(td, rel)).read())
        finally:
            shutil.rmtree(td, ignore_errors=True)
        out["applied"] += 1
        try:
            fs = run_rules(vp)
        except AnalysisError as e:
            failures.append(f"seeded change {sid} makes the analysis refuse instead of reporting: {e}")
            continue
        keys = {}
        for f in fs:
            keys[(f.rule, f.qualname)] = keys.get((f.rule, f.qualname), 0) + 1
        new = sorted(k for k, n in keys.items() if n > base.get(k, 0))
        if new:
            out["reported"] += 1
            out["details"].append({"seed": sid, "status": "reported", "by": [f"{r}@{q.rsplit('.', 2)[-2]}.{q.rsplit('.', 1)[-1]}" for r, q in new][:4]})
        else:
            failures.append(f"seeded change {sid} is recorded as detected by {prop} but is no longer reported")
    if failures:
        raise AnalysisError("seeded-change regression failed: " + "; ".join(failures))
    return out


def _apply_patch(prog: Program, pp: str):
    """Program with the modules touched by patch file `pp` replaced by their patched text (None if it does not apply)."""
    import os
    import re
    import shutil
    import subprocess
    import tempfile

    files = re.findall(r"^\+\+\+ b/(\S+)", open(pp).read(), flags=re.M)
    td = tempfile.mkdtemp(prefix="sfpatch")
    try:
        for rel in files:
            m = prog.by_relpath.get(rel)
            if m is None:
                return None
            os.makedirs(os.path.dirname(os.path.join(td, rel)), exist_ok=True)
            with open(os.path.join(td, rel), "w") as fh:
                fh.write(m.source)
        r = subprocess.run(["git", "apply", "--whitespace=nowarn", pp], cwd=td, capture_output=True, text=True)
        if r.returncode != 0:
            return None
        vp = prog
        for rel in files:
            vp = vp.with_override(rel, open(os.path.join(td, rel)).read())
        return vp
    finally:
        shutil.rmtree(td, ignore_errors=True)


def benign_regression(prog: Program, prop: str, run_rules, base_findings) -> dict:
    """Thorough tier: re-apply every kept behaviour-preserving refactoring (/verif/benign/<id>/patch.diff, written by
    independent agents told only to refactor without changing behaviour; the stable test suite passed with each) and
    require that the rules report nothing new and do not refuse.  A patch that no longer applies is skipped and counted."""
    import os

    root = os.path.join(os.path.dirname(os.path.dirname(os.path.abspath(__file__))), "benign")
    out = {"applied": 0, "skipped": 0, "silent": 0, "details": []}
    if not os.path.isdir(root):
        return out
    base = {}
    for f in base_findings:
        base[(f.rule, f.qualname)] = base.get((f.rule, f.qualname), 0) + 1
    failures = []
    for bid in sorted(os.listdir(root)):
        pp = os.path.join(root, bid, "patch.diff")
        if not os.path.exists(pp):
            continue
        vp = _apply_patch(prog, pp)
        if vp is None:
            out["skipped"] += 1
            out["details"].append({"refactoring": bid, "status": "skipped (patch does not apply to the analysed tree)"})
            continue
        out["applied"] += 1
        try:
            fs = run_rules(vp)
        except AnalysisError as e:
            failures.append(f"behaviour-preserving refactoring {bid} makes the analysis refuse: {e}")
            continue
        keys = {}
        for f in fs:
            keys[(f.rule, f.qualname)] = keys.get((f.rule, f.qualname), 0) + 1
        new = sorted(k for k, n in keys.items() if n > base.get(k, 0))
        if new:
            failures.append(f"behaviour-preserving refactoring {bid} raises a false alarm: " + ", ".join(f"{r}@{q}" for r, q in new[:3]))
        else:
            out["silent"] += 1
    if failures:
        raise AnalysisError("benign-refactoring regression failed: " + "; ".join(failures))
    return out
