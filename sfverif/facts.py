"""Branch facts: which atomic conditions hold whenever control reaches a CFG node, independent of how the source
spells the test (`if a: X else: Y` / `if not a: Y else: X` / guard clauses / `a and b` / De Morgan forms).

atoms(test, truth)   -> [(canonical atom AST, bool)] implied by `test` evaluating to `truth`
facts_at(g, nid)     -> atoms that hold on every path reaching node `nid`
edge_for(test, pred) -> 't' / 'f': the edge of a test node on which `pred(atom, truth)` is implied, or None
key(atom)            -> canonical text of an atom (for set comparisons)

Canonical form: `not` is folded into the truth value; `!=`, `is not`, `not in` become `==`, `is`, `in` with the
truth value flipped; `a and b` true yields both operands, `a or b` false yields both negated operands; a conjunction
that is false / a disjunction that is true stays one (compound) atom.
"""

from __future__ import annotations

import ast
import copy

from .cfg import CFG, NORMAL
from .model import unparse

_FLIP = {ast.NotEq: ast.Eq, ast.IsNot: ast.Is, ast.NotIn: ast.In}


def atoms(test: ast.AST, truth: bool = True) -> list[tuple[ast.AST, bool]]:
    if isinstance(test, ast.UnaryOp) and isinstance(test.op, ast.Not):
        return atoms(test.operand, not truth)
    if isinstance(test, ast.BoolOp):
        if isinstance(test.op, ast.And) and truth:
            return [a for v in test.values for a in atoms(v, True)]
        if isinstance(test.op, ast.Or) and not truth:
            return [a for v in test.values for a in atoms(v, False)]
        return [(test, truth)]
    if isinstance(test, ast.Compare) and len(test.ops) == 1 and type(test.ops[0]) in _FLIP:
        c = ast.Compare(left=test.left, ops=[_FLIP[type(test.ops[0])]()], comparators=test.comparators)
        return [(c, not truth)]
    return [(test, truth)]


def key(atom: ast.AST) -> str:
    """Canonical text; a walrus `(x := e)` inside the atom is printed as `x`."""

    class T(ast.NodeTransformer):
        def visit_NamedExpr(self, node):
            return ast.Name(id=node.target.id, ctx=ast.Load())

    # re-parse instead of deep-copying: analysed nodes carry `_parent` links (a deepcopy would copy the whole module)
    return unparse(T().visit(ast.parse(unparse(atom), mode="eval").body))


def _sides(g: CFG, t: int):
    ts = [b for b, k in g.succ[t] if k == "t"]
    fs = [b for b, k in g.succ[t] if k == "f"]
    a = g.reach(ts, avoid=[t], include_src=True) if ts else set()
    b = g.reach(fs, avoid=[t], include_src=True) if fs else set()
    return a, b


def facts_at(g: CFG, nid: int) -> list[tuple[ast.AST, bool]]:
    out = []
    for t in g.nodes.values():
        if t.kind != "test" or t.id == nid or t.ast is None:
            continue
        if not g.dominates(t.id, nid):
            continue
        a, b = _sides(g, t.id)
        if nid in a and nid not in b:
            out.extend(atoms(t.ast, True))
        elif nid in b and nid not in a:
            out.extend(atoms(t.ast, False))
    return out


def edge_for(test: ast.AST, pred) -> str | None:
    """Edge kind of a test on which some implied atom satisfies pred(atom, truth); None if neither or both."""
    on_t = any(pred(a, v) for a, v in atoms(test, True))
    on_f = any(pred(a, v) for a, v in atoms(test, False))
    if on_t and not on_f:
        return "t"
    if on_f and not on_t:
        return "f"
    return None


def region(g: CFG, t: int, kind: str) -> set[int]:
    """Nodes reachable only through edge `kind` of test node t (normal edges)."""
    a, b = _sides(g, t)
    return (a - b) if kind == "t" else (b - a)


__all__ = ["atoms", "facts_at", "edge_for", "key", "region", "NORMAL"]
