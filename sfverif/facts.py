"""Branch facts: which atomic conditions hold whenever control reaches a CFG node, independent of how the source
spells the test (`if a: X else: Y` / `if not a: Y else: X` / guard clauses / `a and b` / De Morgan forms).

atoms(test, truth)   -> [(canonical atom AST, bool)] implied by `test` evaluating to `truth`
facts_at(g, nid)     -> atoms that hold on every path reaching node `nid`
edge_for(test, pred) -> 't' / 'f': the edge of a test node on which `pred(atom, truth)` is implied, or None
key(atom)            -> canonical text of an atom (for set comparisons)

Canonical form: `not` is folded into the truth value; `!=`, `is not`, `not in` become `==`, `is`, `in` with the
truth value flipped; `a and b` true yields both operands, `a or b` false yields both negated operands; a conjunction
that is false / a disjunction that is true stays one (compound) atom.
"""

from __future__ import annotations

import ast
import copy

from .cfg import CFG, NORMAL
from .model import unparse

_FLIP = {ast.NotEq: ast.Eq, ast.IsNot: ast.Is, ast.NotIn: ast.In}


def atoms(test: ast.AST, truth: bool = True) -> list[tuple[ast.AST, bool]]:
    if isinstance(test, ast.UnaryOp) and isinstance(test.op, ast.Not):
        return atoms(test.operand, not truth)
    if isinstance(test, ast.BoolOp):
        if isinstance(test.op, ast.And) and truth:
            return [a for v in test.values for a in atoms(v, True)]
        if isinstance(test.op, ast.Or) and not truth:
            return [a for v in test.values for a in atoms(v, False)]
        return [(test, truth)]
    if isinstance(test, ast.Compare) and len(test.ops) == 1 and type(test.ops[0]) in _FLIP:
        c = ast.Compare(left=test.left, ops=[_FLIP[type(test.ops[0])]()], comparators=test.comparators)
        return [(c, not truth)]
    return [(test, truth)]


def key(atom: ast.AST) -> str:
    """Canonical text; a walrus `(x := e)` inside the atom is printed as `x`."""

    class T(ast.NodeTransformer):
        def visit_NamedExpr(self, node):
            return ast.Name(id=node.target.id, ctx=ast.Load())

    # re-parse instead of deep-copying: analysed nodes carry `_parent` links (a deepcopy would copy the whole module)
    return unparse(T().visit(ast.parse(unparse(atom), mode="eval").body))


def _sides(g: CFG, t: int):
    ts = [b for b, k in g.succ[t] if k == "t"]
    fs = [b for b, k in g.succ[t] if k == "f"]
    a = g.reach(ts, avoid=[t], include_src=True) if ts else set()
    b = g.reach(fs, avoid=[t], include_src=True) if fs else set()
    return a, b


def facts_at(g: CFG, nid: int) -> list[tuple[ast.AST, bool]]:
    out = []
    for t in g.nodes.values():
        if t.kind != "test" or t.id == nid or t.ast is None:
            continue
        if not g.dominates(t.id, nid):
            continue
        a, b = _sides(g, t.id)
        if nid in a and nid not in b:
            out.extend(atoms(t.ast, True))
        elif nid in b and nid not in a:
            out.extend(atoms(t.ast, False))
    return out


def edge_for(test: ast.AST, pred) -> str | None:
    """Edge kind of a test on which some implied atom satisfies pred(atom, truth); None if neither or both."""
    on_t = any(pred(a, v) for a, v in atoms(test, True))
    on_f = any(pred(a, v) for a, v in atoms(test, False))
    if on_t and not on_f:
        return "t"
    if on_f and not on_t:
        return "f"
    return None


def region(g: CFG, t: int, kind: str) -> set[int]:
    """Nodes reachable only through edge `kind` of test node t (normal edges)."""
    a, b = _sides(g, t)
    return (a - b) if kind == "t" else (b - a)


__all__ = ["atoms", "facts_at", "edge_for", "key", "region", "NORMAL"]


def _adjacent(def_stmt: ast.AST, use: ast.AST) -> bool:
    """The defining assignment sits in the same statement list as the statement that uses the name, with nothing but
    `pass`, docstrings, logging calls or other plain assignments to *other* fresh names in between: no statement that could change
    what the defining expression read (a conservative freshness test: a stale temporary is left unexpanded)."""
    stmt = use
    while stmt is not None and not isinstance(stmt, ast.stmt):
        stmt = getattr(stmt, "_parent", None)
    par = getattr(stmt, "_parent", None) if stmt is not None else None
    if par is None or def_stmt is None:
        return False
    for fld in ("body", "orelse", "finalbody"):
        blk = getattr(par, fld, None)
        if isinstance(blk, list) and stmt in blk and def_stmt in blk:
            i, j = blk.index(def_stmt), blk.index(stmt)
            if i >= j:
                return False
            for mid in blk[i + 1:j]:
                if isinstance(mid, ast.Pass):
                    continue
                if isinstance(mid, ast.Expr) and isinstance(mid.value, ast.Constant):
                    continue
                if isinstance(mid, ast.Expr) and isinstance(mid.value, ast.Call) and unparse(mid.value.func).split(".")[0] in ("logger", "logging"):
                    continue
                if isinstance(mid, ast.Assign) and len(mid.targets) == 1 and isinstance(mid.targets[0], ast.Name) \
                        and not any(isinstance(x, (ast.Call, ast.Await)) and not (isinstance(x, ast.Call) and unparse(x.func) in ("len", "str", "int", "isinstance")) for x in ast.walk(mid.value)):
                    continue
                return False
            return True
    return False


def expand_test(f, test: ast.AST, depth: int = 2) -> ast.AST:
    """The test with every local that has exactly one reaching definition (a plain, un-awaited assignment) replaced by
    the defining expression: `n = len(xs); if n == k` reads as `len(xs) == k`.  Returns a fresh AST (no `_parent` links);
    names that cannot be resolved stay as they are."""
    from .dataflow import reaching_defs

    cur = test
    for _ in range(depth):
        sub = {}
        for n in ast.walk(cur):
            if isinstance(n, ast.Name) and isinstance(n.ctx, ast.Load) and getattr(n, "_parent", None) is not None and n.id not in sub:
                try:
                    ds = reaching_defs(f, n.id, n)
                except Exception:  # noqa: BLE001
                    continue
                if len(ds) == 1 and ds[0].kind == "assign" and ds[0].index is None and ds[0].value is not None \
                        and not any(isinstance(x, (ast.Await, ast.Yield, ast.YieldFrom)) for x in ast.walk(ds[0].value)) \
                        and _adjacent(ds[0].stmt, n):
                    sub[n.id] = ds[0].value
        if not sub:
            break

        class T(ast.NodeTransformer):
            def visit_Name(self, node):
                if isinstance(node.ctx, ast.Load) and node.id in sub:
                    return ast.parse(unparse(sub[node.id]), mode="eval").body
                return node

        new = T().visit(ast.parse(unparse(cur), mode="eval").body)
        # the substituted expressions refer to original nodes only by text: one more round needs parent links, so stop
        # unless the caller asked for depth > 1 and the defining expressions were simple
        return new
    return ast.parse(unparse(cur), mode="eval").body


def test_text(f, node) -> str:
    """Text of a CFG test node with single-definition temporaries expanded (see expand_test)."""
    return unparse(expand_test(f, node.ast)) if node.ast is not None else ""
