"""Def-use helpers (A5) and the shell-fragment classifier (P9)."""

from __future__ import annotations

import ast
from dataclasses import dataclass, field

from .model import Func, Program, dotted, unparse, walk_no_nested


# ----------------------------------------------------------------- definitions


@dataclass
class Def:
    kind: str  # 'assign' | 'aug' | 'for' | 'with' | 'param' | 'walrus' | 'comp' | 'except' | 'import'
    value: ast.AST | None  # assigned expression / iterable / context expr
    stmt: ast.AST | None
    index: int | None = None  # tuple-unpacking position


def _targets(t: ast.AST, name: str, idx=None):
    if isinstance(t, ast.Name) and t.id == name:
        yield idx
    elif isinstance(t, (ast.Tuple, ast.List)):
        for i, e in enumerate(t.elts):
            yield from _targets(e, name, i if idx is None else idx)
    elif isinstance(t, ast.Starred):
        yield from _targets(t.value, name, idx)


def defs_of(f: Func, name: str, *, scope: ast.AST | None = None) -> list[Def]:
    """All definitions of local `name` in `f` (flow-insensitive), parameters included."""
    out: list[Def] = []
    if name in f.params:
        out.append(Def("param", None, None))
    root = scope or f.node
    for n in walk_no_nested(root):
        if isinstance(n, ast.Assign):
            for t in n.targets:
                for idx in _targets(t, name):
                    out.append(Def("assign", n.value, n, idx))
        elif isinstance(n, ast.AnnAssign) and n.value is not None:
            for idx in _targets(n.target, name):
                out.append(Def("assign", n.value, n, idx))
        elif isinstance(n, ast.AugAssign):
            for idx in _targets(n.target, name):
                out.append(Def("aug", n.value, n, idx))
        elif isinstance(n, (ast.For, ast.AsyncFor)):
            for idx in _targets(n.target, name):
                out.append(Def("for", n.iter, n, idx))
        elif isinstance(n, (ast.With, ast.AsyncWith)):
            for it in n.items:
                if it.optional_vars is not None:
                    for idx in _targets(it.optional_vars, name):
                        out.append(Def("with", it.context_expr, n, idx))
        elif isinstance(n, ast.NamedExpr):
            if n.target.id == name:
                out.append(Def("walrus", n.value, n))
        elif isinstance(n, ast.comprehension):
            for idx in _targets(n.target, name):
                out.append(Def("comp", n.iter, n, idx))
        elif isinstance(n, ast.ExceptHandler) and n.name == name:
            out.append(Def("except", n.type, n))
    return out


def _def_node_ids(g, d: "Def") -> list[int]:
    if d.kind == "param":
        return [g.entry]
    st = d.stmt
    if st is None:
        return []
    if d.kind == "walrus":
        return g.node_containing(st)
    if d.kind in ("comp", "except"):
        return []
    return g.ids_of(st) or g.node_containing(st)


def reaching_defs(f: Func, name: str, use: ast.AST) -> list[Def]:
    """Definitions of `name` that reach the CFG node evaluating `use` (flow-sensitive; plain
    assignments, loop/with targets and walrus kill earlier definitions, augmented assignments do not).
    Falls back to all definitions when the use cannot be located."""
    ds = defs_of(f, name)
    g = f.cfg
    unodes = g.node_containing(use) if not isinstance(use, ast.stmt) else (g.ids_of(use) or g.node_containing(use))
    if not unodes:
        return ds
    located = [(d, _def_node_ids(g, d)) for d in ds]
    kill: set[int] = set()
    for d, ids in located:
        if d.kind in ("assign", "for", "with", "walrus", "param") and d.index is None or d.kind in ("for", "with"):
            kill.update(ids)
    out = []
    for d, ids in located:
        if not ids:  # comprehension / handler variables: scoped, keep
            out.append(d)
            continue
        reach = False
        for di in ids:
            for u in unodes:
                if di == u and d.kind != "param":
                    # the definition and the use are the same statement: reaches only around a loop
                    if g.path(di, [u], avoid=kill - {di}) is not None:
                        reach = True
                elif g.path(di, [u], avoid=kill - {di, u}, kinds=frozenset({"n", "t", "f", "exc", "cexc"})) is not None:
                    reach = True
        if reach:
            out.append(d)
    return out


def origins(f: Func, expr: ast.AST, depth: int = 5, _seen=None) -> list[ast.AST]:
    """Expressions `expr` may denote: local names are replaced by their plain
    assignments (all of them, flow-insensitively); parameters, loop variables and
    everything else are leaves."""
    if _seen is None:
        _seen = set()
    if isinstance(expr, ast.Name) and depth > 0 and expr.id not in _seen:
        ds = defs_of(f, expr.id)
        if ds and all(d.kind in ("assign", "walrus") and d.index is None for d in ds):
            out: list[ast.AST] = []
            for d in ds:
                out.extend(origins(f, d.value, depth - 1, _seen | {expr.id}))
            return out
    if isinstance(expr, ast.Await):
        return origins(f, expr.value, depth, _seen)
    if isinstance(expr, ast.IfExp):
        return origins(f, expr.body, depth, _seen) + origins(f, expr.orelse, depth, _seen)
    return [expr]


def call_matches(prog: Program, f: Func, expr: ast.AST, names: set[str] | tuple) -> bool:
    """expr is a call (possibly awaited) resolving to one of `names` (qualname or suffix)."""
    if isinstance(expr, ast.Await):
        expr = expr.value
    if not isinstance(expr, ast.Call):
        return False
    for q in prog.resolve_call(f, expr):
        for nm in names:
            if q == nm or q.endswith("." + nm):
                return True
    return False


def names_in(node: ast.AST) -> set[str]:
    return {n.id for n in ast.walk(node) if isinstance(n, ast.Name)}


def attr_chain_text(node: ast.AST) -> str:
    return dotted(node) or unparse(node)


# ----------------------------------------------------------------- P9 fragments


@dataclass
class Frag:
    kind: str  # 'const' | 'quoted' | 'num' | 'dyn'
    expr: ast.AST | None
    text: str
    via: list[str] = field(default_factory=list)

    def __repr__(self):
        return f"{self.kind}:{self.text}"


QUOTERS = {"shlex.quote", "shlex.join", "quote", "shlex_quote"}
NUMERIC = {"int", "oct", "len", "float", "hex"}


def _is_quoter(prog: Program, f: Func, call: ast.Call) -> bool:
    for q in prog.resolve_call(f, call, fanout=False):
        if q in ("shlex.quote", "shlex.join"):
            return True
    return False


def _param_args(prog: Program, f: Func, name: str):
    """(caller, argument expression) bound to parameter `name` of the *private* function `f` at every resolved call
    site; None when the function is public, has no resolved call site, or a site uses */** so the binding is unknown.
    (A private helper handed around as a callback is not seen: the callers are those the call index resolves.)"""
    if not f.name.startswith("_") or f.name.startswith("__") or isinstance(f.node, ast.Lambda):
        return None
    try:
        sites = prog.callers(f.qualname)
    except Exception:  # noqa: BLE001
        return None
    if not sites:
        return None
    a = f.node.args
    pos = [x.arg for x in a.posonlyargs + a.args]
    defaults = dict(zip(reversed(pos), reversed(a.defaults)))
    for k, dv in zip(a.kwonlyargs, a.kw_defaults):
        if dv is not None:
            defaults[k.arg] = dv
    bound = bool(pos) and pos[0] in ("self", "cls") and f.cls is not None
    out = []
    for g, c in sites:
        if any(isinstance(x, ast.Starred) for x in c.args) or any(k.arg is None for k in c.keywords):
            return None
        kw = {k.arg: k.value for k in c.keywords}
        if name in kw:
            out.append((g, kw[name]))
            continue
        if name in pos:
            idx = pos.index(name) - (1 if bound and isinstance(c.func, ast.Attribute) else 0)
            if 0 <= idx < len(c.args):
                out.append((g, c.args[idx]))
                continue
        if name in defaults:
            out.append((f, defaults[name]))
            continue
        return None
    return out


def fragments(prog: Program, f: Func, expr: ast.AST, depth: int = 14, _seen: frozenset = frozenset(), at: ast.AST | None = None) -> list[Frag]:
    """Split the expression that builds a command (string or list of words) into
    constant / quoted / numeric / dynamic fragments."""
    if depth <= 0:
        return [Frag("dyn", expr, unparse(expr))]
    rec = lambda e, seen=_seen: fragments(prog, f, e, depth - 1, seen, at)  # noqa: E731
    if isinstance(expr, ast.Await):
        return rec(expr.value)
    if isinstance(expr, ast.Constant):
        if isinstance(expr.value, (int, float)) and not isinstance(expr.value, bool):
            return [Frag("num", expr, repr(expr.value))]
        return [Frag("const", expr, repr(expr.value))]
    if isinstance(expr, ast.JoinedStr):
        out: list[Frag] = []
        for v in expr.values:
            if isinstance(v, ast.Constant):
                out.append(Frag("const", v, repr(v.value)))
            elif isinstance(v, ast.FormattedValue):
                spec = unparse(v.format_spec) if v.format_spec is not None else ""
                if spec and spec.strip("f'\"")[-1:] in "dfoxXeEgG" and not any(
                    isinstance(x, ast.FormattedValue) for x in ast.walk(v.format_spec)
                ):
                    out.append(Frag("num", v.value, unparse(v.value)))
                else:
                    out.extend(rec(v.value))
        return out
    if isinstance(expr, ast.BinOp) and isinstance(expr.op, ast.Add):
        return rec(expr.left) + rec(expr.right)
    if isinstance(expr, ast.BinOp) and isinstance(expr.op, ast.Mod) and isinstance(expr.left, ast.Constant):
        args = expr.right.elts if isinstance(expr.right, ast.Tuple) else [expr.right]
        out = [Frag("const", expr.left, repr(expr.left.value))]
        for a in args:
            out.extend(rec(a))
        return out
    if isinstance(expr, (ast.List, ast.Tuple, ast.Set)):
        out = []
        for e in expr.elts:
            out.extend(rec(e.value if isinstance(e, ast.Starred) else e))
        return out
    if isinstance(expr, (ast.ListComp, ast.GeneratorExp, ast.SetComp)):
        return rec(expr.elt)
    if isinstance(expr, ast.IfExp):
        return rec(expr.body) + rec(expr.orelse)
    if isinstance(expr, ast.BoolOp):
        out = []
        for v in expr.values:
            out.extend(rec(v))
        return out
    if isinstance(expr, ast.Call):
        fn = expr.func
        if _is_quoter(prog, f, expr):
            return [Frag("quoted", expr, unparse(expr))]
        d = dotted(fn)
        if d in NUMERIC:
            return [Frag("num", expr, unparse(expr))]
        if isinstance(fn, ast.Attribute):
            if fn.attr == "join" and len(expr.args) == 1:
                return rec(fn.value) + rec(expr.args[0])
            if fn.attr == "format":
                out = rec(fn.value)
                for a in expr.args:
                    out.extend(rec(a))
                for k in expr.keywords:
                    out.extend(rec(k.value))
                return out
            if fn.attr in ("strip", "rstrip", "lstrip", "lower", "upper", "encode", "decode") :
                return rec(fn.value)
        if d == "str" and len(expr.args) == 1 and isinstance(expr.args[0], ast.Name):
            ann = f.param_annotation(expr.args[0].id)
            if ann is not None and unparse(ann) in ("int", "float", "int | None"):
                return [Frag("num", expr, unparse(expr))]
        if d in ("str", "repr", "list", "tuple", "sorted") and len(expr.args) >= 1:
            inner = rec(expr.args[0])
            if d == "str" and all(x.kind == "dyn" for x in inner):
                return [Frag("dyn", expr, unparse(expr))]
            return inner
        return [Frag("dyn", expr, unparse(expr))]
    if isinstance(expr, ast.Name):
        if expr.id in _seen:
            return []
        use = at if at is not None else expr
        ds = reaching_defs(f, expr.id, use) if getattr(use, "_parent", None) is not None else defs_of(f, expr.id)
        if not ds:
            return [Frag("dyn", expr, expr.id)]
        out = []
        seen = _seen | {expr.id}
        for d in ds:
            if d.kind in ("assign", "walrus", "aug") and d.index is None:
                out.extend(fragments(prog, f, d.value, depth - 1, seen if d.kind != "aug" else _seen | {expr.id}, d.stmt if d.kind != "walrus" else d.value))
            elif d.kind == "param" and (sites := _param_args(prog, f, expr.id)) is not None and depth > 2:
                # private helper: the parameter is what its resolved call sites pass
                for g, e in sites:
                    for fr in fragments(prog, g, e, depth - 2, frozenset(), e):
                        fr.via = fr.via + [f"argument `{expr.id}` of {f.name} at {g.qualname}"]
                        out.append(fr)
            else:
                out.append(Frag("dyn", expr, expr.id, via=[d.kind]))
        # list accumulation: name.append(x) / name.extend(xs) / name.insert(i, x)
        for n in walk_no_nested(f.node):
            if isinstance(n, ast.Call) and isinstance(n.func, ast.Attribute) and isinstance(n.func.value, ast.Name) and n.func.value.id == expr.id:
                if n.func.attr in ("append", "extend") and n.args:
                    out.extend(fragments(prog, f, n.args[0], depth - 1, seen))
                elif n.func.attr == "insert" and len(n.args) == 2:
                    out.extend(fragments(prog, f, n.args[1], depth - 1, seen))
        # de-duplicate dyn fragments by text
        res, seen_t = [], set()
        for fr in out:
            k = (fr.kind, fr.text)
            if fr.kind != "dyn" or k not in seen_t:
                seen_t.add(k)
                res.append(fr)
        return res
    return [Frag("dyn", expr, unparse(expr))]
