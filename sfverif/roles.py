"""Role discovery: find local variables by what they are assigned from, so rules do not depend on local names."""

from __future__ import annotations

import ast
from typing import Callable

from .model import Func, unparse, walk_no_nested


def strip_await(e: ast.AST) -> ast.AST:
    while isinstance(e, ast.Await):
        e = e.value
    return e


def vars_from(f: Func, pred: Callable[[ast.AST], bool]) -> list[str]:
    """Names bound (assignment, walrus, with-as, for target) to an expression satisfying pred (await stripped)."""
    out = []
    for n in f.body_nodes():
        if isinstance(n, (ast.Assign, ast.AnnAssign)) and n.value is not None:
            ts = n.targets if isinstance(n, ast.Assign) else [n.target]
            if pred(strip_await(n.value)):
                out += [t.id for t in ts if isinstance(t, ast.Name)]
        elif isinstance(n, ast.NamedExpr) and pred(strip_await(n.value)):
            out.append(n.target.id)
        elif isinstance(n, (ast.With, ast.AsyncWith)):
            for it in n.items:
                if isinstance(it.optional_vars, ast.Name) and pred(strip_await(it.context_expr)):
                    out.append(it.optional_vars.id)
        elif isinstance(n, (ast.For, ast.AsyncFor)) and isinstance(n.target, ast.Name) and pred(strip_await(n.iter)):
            out.append(n.target.id)
    return list(dict.fromkeys(out))


def tuple_vars_from(f: Func, pred: Callable[[ast.AST], bool]) -> list[list[str | None]]:
    """For assignments `a, b = <expr satisfying pred>` (also for/comprehension targets): the target names by position."""
    out = []

    def names(t):
        return [e.id if isinstance(e, ast.Name) else None for e in t.elts]

    for n in f.body_nodes():
        if isinstance(n, ast.Assign) and isinstance(n.targets[0], (ast.Tuple, ast.List)) and pred(strip_await(n.value)):
            out.append(names(n.targets[0]))
        elif isinstance(n, (ast.For, ast.AsyncFor)) and isinstance(n.target, (ast.Tuple, ast.List)) and pred(strip_await(n.iter)):
            out.append(names(n.target))
        elif isinstance(n, ast.comprehension) and isinstance(n.target, (ast.Tuple, ast.List)) and pred(strip_await(n.iter)):
            out.append(names(n.target))
    return out


def is_call(e: ast.AST, attr: str | None = None, recv_contains: str | None = None, name: str | None = None) -> bool:
    e = strip_await(e)
    if not isinstance(e, ast.Call):
        return False
    if name is not None:
        return unparse(e.func) == name
    if not isinstance(e.func, ast.Attribute):
        return False
    if attr is not None and e.func.attr != attr:
        return False
    if recv_contains is not None and recv_contains not in unparse(e.func.value):
        return False
    return True


def kwarg_name(f: Func, callee_attr: str, kw: str) -> str | None:
    """Name of the variable passed as keyword `kw` to a call of `callee_attr` in f."""
    for c in f.calls():
        fn = c.func
        nm = fn.attr if isinstance(fn, ast.Attribute) else (fn.id if isinstance(fn, ast.Name) else None)
        if nm == callee_attr:
            for k in c.keywords:
                if k.arg == kw and isinstance(k.value, ast.Name):
                    return k.value.id
    return None
