"""Shared P9 machinery: command sinks and the quoting obligation."""

from __future__ import annotations

import ast

from .dataflow import Frag, fragments
from .model import Func, Program, unparse
from .report import Ctx

SINK_ATTRS = {"run", "_test", "get_stream_writer", "get_stream_reader"}


def command_sinks(f: Func, attrs=SINK_ATTRS):
    """(call, command expression) for every call that hands a command to a connector."""
    for c in f.calls():
        fn = c.func
        name = fn.attr if isinstance(fn, ast.Attribute) else (fn.id if isinstance(fn, ast.Name) else None)
        if name not in attrs:
            continue
        for k in c.keywords:
            if k.arg == "command":
                yield c, k.value


def check_quoting(
    ctx: Ctx,
    rule: str,
    f: Func,
    expr: ast.AST,
    at: ast.AST,
    trusted: set[str] = frozenset(),
    what: str = "command",
    only_sources: set[str] | None = None,
) -> list[Frag]:
    """Every dynamic fragment of `expr` must be quoted, numeric or trusted.
    With `only_sources`, only dynamic fragments whose text is in that set are sources."""
    frs = fragments(ctx.prog, f, expr)
    for fr in frs:
        if fr.kind == "quoted":
            ctx.ob(rule, f"{what}: {fr.text} is quoted", True, func=f, node=at)
        elif fr.kind == "dyn":
            if fr.text in trusted:
                continue
            if only_sources is not None and fr.text not in only_sources:
                continue
            ctx.ob(
                rule,
                f"{what}: run-time value {fr.text} spliced into a shell command",
                False,
                func=f,
                node=at,
                instance=f"{what}|{fr.text}",
                message=f"run-time value `{fr.text}` reaches the shell command without shlex.quote",
                witness=[f"command expression: {unparse(expr)[:300]}", f"fragments: {frs}"[:600]],
            )
    return frs
