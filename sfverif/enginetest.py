"""Engine self-check: CFG construction, path queries, MRO, resolver and the P9
fragment classifier on hand-written code with hand-computed answers."""

from __future__ import annotations

import ast
import textwrap

from .cfg import ALL, ALLC, NORMAL, build_cfg
from .model import Program, set_parents, unparse

CASES: list[tuple[str, str, list]] = []


def case(src: str, *facts):
    CASES.append((textwrap.dedent(src), "", list(facts)))


def _find(g, text: str) -> list[int]:
    out = [n.id for n in g.nodes.values() if n.ast is not None and n.text(200) == text]
    if not out:
        out = [n.id for n in g.nodes.values() if n.ast is not None and text in n.text(200)]
    return out


def must(a: str, through: str, kinds=NORMAL, expect=True):
    """Every path from each copy of a to exit passes through `through`."""

    def chk(g):
        ok = True
        for s in _find(g, a):
            if g.escape(s, _find(g, through), kinds=kinds) is not None:
                ok = False
        assert _find(g, a), f"no node {a}"
        return ok == expect, f"must({a!r} -> {through!r}, exc={kinds == ALL}) expected {expect}"

    return chk


def dom(a: str, b: str, kinds=NORMAL, expect=True):
    def chk(g):
        res = all(g.dominates(_find(g, a), x, kinds) for x in _find(g, b))
        assert _find(g, b), f"no node {b}"
        return res == expect, f"dom({a!r}, {b!r}) expected {expect}"

    return chk


def reach(a: str, b: str, kinds=NORMAL, expect=True):
    def chk(g):
        res = any(set(_find(g, b)) & g.reach([s], kinds=kinds) for s in _find(g, a))
        return res == expect, f"reach({a!r}, {b!r}) expected {expect}"

    return chk


def exits_normally(expect: bool):
    def chk(g):
        return (g.exit in g.reach([g.entry])) == expect, f"exit reachable expected {expect}"

    return chk


case(
    """
    def f(x):
        a()
        if x:
            return b()
        c()
    """,
    must("a()", "c()", expect=False),
    dom("a()", "c()"),
    reach("return b()", "c()", expect=False),
)
case(
    """
    async def f(self):
        self.ev = E()
        try:
            await deploy()
        except Exception:
            self.ev.set()
            raise
        self.ev.set()
    """,
    must("await deploy()", "self.ev.set()", kinds=ALLC, expect=False),  # CancelledError escapes
    must("await deploy()", "self.ev.set()", kinds=ALL, expect=True),
    must("self.ev = E()", "self.ev.set()", kinds=NORMAL, expect=True),
)
case(
    """
    async def f(self):
        self.ev = E()
        try:
            await deploy()
        finally:
            self.ev.set()
    """,
    must("await deploy()", "self.ev.set()", kinds=ALL, expect=True),
)
case(
    """
    def f(xs):
        for x in xs:
            try:
                if x:
                    break
                g(x)
            finally:
                cleanup()
        done()
    """,
    must("break", "cleanup()", expect=True),
    reach("break", "done()"),
    reach("break", "g(x)", expect=False),
    must("g(x)", "cleanup()", kinds=ALL, expect=True),
)
case(
    """
    async def f(self):
        while True:
            async with self.lock:
                if self.ok():
                    return 1
                await self.lock.wait()
    """,
    exits_normally(True),
    reach("await self.lock.wait()", "test(self.ok())"),
    must("with_enter(self.lock)", "test(self.ok())"),
)
case(
    """
    def f(x):
        while True:
            if x:
                break
        else:
            never()
        after()
    """,
    reach("break", "after()"),
    reach("test(x)", "never()", expect=False),
)
case(
    """
    def f(x):
        match x:
            case 1:
                a()
            case 2:
                b()
        c()
    """,
    must("test(x)", "a()", expect=False),
    reach("test(x)", "c()"),
)
case(
    """
    def f(x):
        match x:
            case 1:
                return a()
            case _:
                return b()
        c()
    """,
    reach("test(x)", "c()", expect=False),
)
case(
    """
    def f():
        with suppress(WorkflowExecutionException):
            sh = get_shell()
            return sh.run()
        return fallback()
    """,
    reach("sh = get_shell()", "return fallback()", kinds=ALL),
    reach("sh = get_shell()", "return fallback()", kinds=NORMAL, expect=False),
    reach("return sh.run()", "return fallback()", kinds=ALL),
)
case(
    """
    def f():
        try:
            a()
        except ValueError:
            h1()
        except BaseException:
            h2()
            raise
        else:
            e()
        z()
    """,
    reach("a()", "h1()", kinds=ALL),
    reach("a()", "h1()", kinds=NORMAL, expect=False),
    reach("e()", "h1()", kinds=ALL, expect=False),
    must("h2()", "z()", kinds=ALL, expect=False),
    dom("a()", "z()"),
)
case(
    """
    def f():
        try:
            try:
                a()
            finally:
                inner()
        except KeyError:
            outer()
        end()
    """,
    reach("a()", "outer()", kinds=ALL),
    must("a()", "inner()", kinds=ALL),
    dom("inner()", "outer()", kinds=ALL),
)
case(
    """
    def f(xs):
        for x in xs:
            if x:
                continue
            use(x)
        else:
            fin()
        return 0
    """,
    reach("continue", "use(x)"),
    must("continue", "fin()", expect=True),  # no break: the else clause is on every normal path
    dom("for x in xs", "fin()"),
)
case(
    """
    def f():
        try:
            return a()
        finally:
            c()
    """,
    must("return a()", "c()", kinds=NORMAL),
    must("return a()", "c()", kinds=ALL),
)
case(
    """
    async def f(self):
        if self.d is None:
            if not self.deploying:
                self.deploying = True
                await self.deploy()
            else:
                await self.wait()
        return await self.d.run()
    """,
    dom("test(self.d is None)", "return await self.d.run()"),
    reach("self.deploying = True", "await self.wait()", expect=False),
)


def _cfg_tests() -> list[str]:
    errs = []
    for src, _, facts in CASES:
        tree = ast.parse(src)
        set_parents(tree)
        g = build_cfg(tree.body[0])
        for fact in facts:
            try:
                ok, msg = fact(g)
            except AssertionError as e:
                ok, msg = False, f"assertion: {e}"
            if not ok:
                errs.append(f"CFG case failed: {msg}\n{src}")
    return errs


MINI = {
    "streamflow/__init__.py": "",
    "streamflow/a.py": """
import shlex
from abc import ABC, abstractmethod
from streamflow.b import Helper, util as u2

class Base(ABC):
    def __init__(self, h: Helper):
        self.h: Helper = h
        self.items = []
    @abstractmethod
    async def run(self): ...
    def go(self):
        return self.h.help(1)

class Mid(Base):
    async def run(self):
        await self.go2()
    async def go2(self):
        return u2(3)

class Leaf(Mid):
    async def run(self):
        await super().run()
        x = self.h
        x.help(2)

def cmd(path, mode, n):
    c = ["chmod", oct(mode), shlex.quote(path)]
    c.append(path)
    return " ".join(c) + f" {n:d} {path!s} " + "x{}".format(path)
""",
    "streamflow/b.py": """
class Helper:
    def help(self, n): return n
def util(n): return n
""",
}


def _model_tests() -> list[str]:
    errs = []
    p = Program("/nonexistent", overrides=MINI, only=[])
    A = "streamflow.a"
    if p.mro(f"{A}.Leaf")[:3] != [f"{A}.Leaf", f"{A}.Mid", f"{A}.Base"]:
        errs.append(f"mro wrong: {p.mro(f'{A}.Leaf')}")
    leaf_run = p.func(f"{A}.Leaf.run")
    calls = {unparse(c): p.resolve_call(leaf_run, c) for c in leaf_run.calls()}
    if calls.get("super().run()") != [f"{A}.Mid.run"]:
        errs.append(f"super() resolution: {calls}")
    if calls.get("x.help(2)") != ["streamflow.b.Helper.help"]:
        errs.append(f"typed local resolution: {calls}")
    go = p.func(f"{A}.Base.go")
    r = [p.resolve_call(go, c) for c in go.calls()]
    if r != [["streamflow.b.Helper.help"]]:
        errs.append(f"attr type resolution: {r}")
    go2 = p.func(f"{A}.Mid.go2")
    r = [p.resolve_call(go2, c) for c in go2.calls()]
    if r != [["streamflow.b.util"]]:
        errs.append(f"import alias resolution: {r}")
    if [f.qualname for f in p.concrete_impls(f"{A}.Base", "run")] != [f"{A}.Leaf.run", f"{A}.Mid.run"] and sorted(
        f.qualname for f in p.concrete_impls(f"{A}.Base", "run")
    ) != [f"{A}.Leaf.run", f"{A}.Mid.run"]:
        errs.append("concrete_impls wrong")
    if len(p.callers("streamflow.b.Helper.help")) != 2:
        errs.append(f"callers: {p.callers('streamflow.b.Helper.help')}")
    from .dataflow import fragments

    cmd = p.func(f"{A}.cmd")
    ret = [n for n in cmd.body_nodes() if isinstance(n, ast.Return)][0]
    fr = fragments(p, cmd, ret.value)
    dyn = sorted({x.text for x in fr if x.kind == "dyn"})
    quoted = [x.text for x in fr if x.kind == "quoted"]
    num = sorted(x.text for x in fr if x.kind == "num")
    if dyn != ["path"] or quoted != ["shlex.quote(path)"] or num != ["n", "oct(mode)"]:
        errs.append(f"fragments: dyn={dyn} quoted={quoted} num={num} all={fr}")
    # override mechanism
    p2 = p.with_override("streamflow/b.py", MINI["streamflow/b.py"].replace("def help", "def help2"))
    if p2.resolve_method("streamflow.b.Helper", "help") is not None or p.resolve_method("streamflow.b.Helper", "help") is None:
        errs.append("with_override does not isolate programs")
    return errs


def selfcheck() -> int:
    errs = _cfg_tests() + _model_tests() + _cycle_test()
    nfacts = sum(len(c[2]) for c in CASES)
    if errs:
        for e in errs:
            print("ANALYSIS-ERROR engine self-check:", e)
        return 2
    print(f"sfverif engine self-check: {len(CASES)} CFG functions / {nfacts} path facts, model + fragment tests OK")
    return 0


def _cycle_test() -> list[str]:
    src = textwrap.dedent(
        """
        def f(x):
            while True:
                a()
                if x:
                    continue
                b()
        """
    )
    tree = ast.parse(src)
    set_parents(tree)
    g = build_cfg(tree.body[0])
    a = _find(g, "a()")[0]
    b = _find(g, "b()")[0]
    errs = []
    if g.path(a, [a], avoid=[b]) is None:
        errs.append("cycle a->a avoiding b not found")
    if g.path(b, [b], avoid=[a]) is not None:
        errs.append("spurious cycle b->b avoiding a")
    return errs
