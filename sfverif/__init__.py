"""sfverif — repository-specific static analysis for alpha-unito/streamflow.

Decides structural clauses of properties C01..C34 on /repo's current source.
Nothing under /repo is imported or executed.
"""

REPO = "/repo"
PKG = "streamflow"
