#!/venv/bin/python
"""Re-base the kept patches (/verif/seeded/*/patch.diff, /verif/benign/*/patch.diff) onto /repo HEAD after a fix commit.
A patch that no longer applies cleanly is applied with a 3-way merge in a scratch worktree of HEAD and re-written as
`git diff`; the original is kept as patch.orig.diff.  Patches that conflict are listed (manual work).
usage: tools/rebase_patches.py [--dry]"""
import glob, os, shutil, subprocess, sys

VERIF = os.path.dirname(os.path.dirname(os.path.abspath(__file__)))
dry = "--dry" in sys.argv
wt = "/tmp/sv/rebase"
subprocess.run(["git", "-C", "/repo", "worktree", "remove", "--force", wt], capture_output=True)
shutil.rmtree(wt, ignore_errors=True)
subprocess.check_call(["git", "-C", "/repo", "worktree", "add", "-q", "--detach", wt, "HEAD"])
try:
    for pp in sorted(glob.glob(f"{VERIF}/seeded/*/patch.diff") + glob.glob(f"{VERIF}/benign/*/patch.diff")):
        sid = pp.split("/")[-2]
        subprocess.check_call(["git", "reset", "-q", "--hard", "HEAD"], cwd=wt)
        if subprocess.run(["git", "apply", "--check", "--whitespace=nowarn", pp], cwd=wt, capture_output=True).returncode == 0:
            continue
        r = subprocess.run(["git", "apply", "--3way", "--whitespace=nowarn", pp], cwd=wt, capture_output=True, text=True)
        if r.returncode != 0 or "conflict" in (r.stderr + r.stdout).lower():
            print(f"CONFLICT {sid}: {(r.stderr or r.stdout).strip().splitlines()[-1][:160]}")
            continue
        new = subprocess.run(["git", "diff", "HEAD"], cwd=wt, capture_output=True, text=True).stdout
        print(f"rebased {sid} ({len(new.splitlines())} lines)")
        if not dry:
            if not os.path.exists(pp.replace("patch.diff", "patch.orig.diff")):
                shutil.copy(pp, pp.replace("patch.diff", "patch.orig.diff"))
            open(pp, "w").write(new)
finally:
    subprocess.run(["git", "-C", "/repo", "worktree", "remove", "--force", wt], capture_output=True)
    shutil.rmtree(wt, ignore_errors=True)
