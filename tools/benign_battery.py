#!/venv/bin/python
"""Benign-edit battery: behaviour-preserving whole-module rewrites must not make any check fire or refuse.

For every module of /repo/streamflow (generated parser excluded) two in-memory variants are built:
  rename : every local variable of every function is renamed (x -> x_r), consistently in the function subtree
  pad    : a `pass` statement is inserted at the start of every statement block
  ifswap / guard / tempret / mergeif / splitif / elsedrop / walrusout / comp2loop : mechanical behaviour-preserving
           restructurings applied at every eligible site of the module (see the transformer classes)
and every ready check is run against the variant program.  Any new finding or analysis error is printed.

usage: tools/benign_battery.py [--kinds rename,pad] [--modules substr,...] [--props C10,C11] [-j N]
"""
import ast, builtins, collections, json, os, sys, time
from concurrent.futures import ProcessPoolExecutor

sys.path.insert(0, os.path.dirname(os.path.dirname(os.path.abspath(__file__))))
from sfverif.model import AnalysisError, Program  # noqa: E402
from sfverif.__main__ import load_rules, run_rules_on  # noqa: E402

BUILTINS = set(dir(builtins))


def local_names(fn):
    params = {a.arg for a in fn.args.posonlyargs + fn.args.args + fn.args.kwonlyargs}
    if fn.args.vararg:
        params.add(fn.args.vararg.arg)
    if fn.args.kwarg:
        params.add(fn.args.kwarg.arg)
    stored, banned = set(), set(params)
    for n in ast.walk(fn):
        if n is fn:
            continue
        if isinstance(n, (ast.FunctionDef, ast.AsyncFunctionDef, ast.Lambda)):
            a = n.args
            for x in a.posonlyargs + a.args + a.kwonlyargs + [y for y in (a.vararg, a.kwarg) if y]:
                banned.add(x.arg)
            if not isinstance(n, ast.Lambda):
                banned.add(n.name)
        elif isinstance(n, ast.ClassDef):
            banned.add(n.name)
        elif isinstance(n, (ast.Global, ast.Nonlocal)):
            banned.update(n.names)
        elif isinstance(n, ast.Name) and isinstance(n.ctx, (ast.Store, ast.Del)):
            stored.add(n.id)
        elif isinstance(n, ast.ExceptHandler) and n.name:
            banned.add(n.name)
        elif isinstance(n, (ast.Import, ast.ImportFrom)):
            for al in n.names:
                banned.add((al.asname or al.name).split(".")[0])
        elif isinstance(n, ast.MatchAs) and n.name:
            banned.add(n.name)
        elif isinstance(n, ast.MatchStar) and n.name:
            banned.add(n.name)
    return {x for x in stored if x not in banned and x not in BUILTINS and not x.startswith("__")}


class Renamer(ast.NodeTransformer):
    def __init__(self):
        self.stack = []

    def _fn(self, node):
        outer = bool(self.stack)
        names = local_names(node) if not outer else set()
        self.stack.append(names)
        self.generic_visit(node)
        self.stack.pop()
        return node

    visit_FunctionDef = _fn
    visit_AsyncFunctionDef = _fn

    def visit_Name(self, node):
        if self.stack and node.id in self.stack[0]:
            node.id = node.id + "_r"
        return node


class Padder(ast.NodeTransformer):
    def generic_visit(self, node):
        super().generic_visit(node)
        for fld in ("body", "orelse", "finalbody"):
            b = getattr(node, fld, None)
            if isinstance(b, list) and b and isinstance(b[0], ast.stmt) and not isinstance(node, (ast.Module, ast.ClassDef)):
                start = 1 if (isinstance(b[0], ast.Expr) and isinstance(b[0].value, ast.Constant) and isinstance(b[0].value.value, str)) else 0
                b.insert(start, ast.Pass())
        return node


def _neg(e):
    if isinstance(e, ast.UnaryOp) and isinstance(e.op, ast.Not):
        return e.operand
    return ast.UnaryOp(op=ast.Not(), operand=e)


def _ends_flow(stmts):
    return bool(stmts) and isinstance(stmts[-1], (ast.Return, ast.Raise, ast.Continue, ast.Break))


class _Blocks(ast.NodeTransformer):
    """Base: rewrites every statement list bottom-up through `block(stmts, owner, field)`."""

    def generic_visit(self, node):
        super().generic_visit(node)
        for fld in ("body", "orelse", "finalbody"):
            b = getattr(node, fld, None)
            if isinstance(b, list) and b and isinstance(b[0], ast.stmt):
                setattr(node, fld, self.block(b, node, fld))
        return node

    def block(self, stmts, owner, fld):
        return stmts


class IfSwap(_Blocks):
    """if A: X else: Y  ->  if not A: Y else: X   (no elif chains)"""

    def block(self, stmts, owner, fld):
        for s in stmts:
            if isinstance(s, ast.If) and s.orelse and not (len(s.orelse) == 1 and isinstance(s.orelse[0], ast.If)) \
                    and not (isinstance(owner, ast.If) and fld == "orelse" and len(stmts) == 1):
                s.test, s.body, s.orelse = _neg(s.test), s.orelse, s.body
        return stmts


class Guard(_Blocks):
    """last statement `if A: body` (no else) of a function / loop body  ->  `if not A: return|continue` + body"""

    def block(self, stmts, owner, fld):
        if fld != "body" or not isinstance(owner, (ast.FunctionDef, ast.AsyncFunctionDef, ast.For, ast.AsyncFor, ast.While)):
            return stmts
        last = stmts[-1]
        if isinstance(last, ast.If) and not last.orelse and len(last.body) >= 2:
            leave = ast.Return(value=None) if isinstance(owner, (ast.FunctionDef, ast.AsyncFunctionDef)) else ast.Continue()
            return stmts[:-1] + [ast.If(test=_neg(last.test), body=[leave], orelse=[])] + last.body
        return stmts


class TempRet(_Blocks):
    """return <expr>  ->  _sf_ret = <expr>; return _sf_ret"""

    def block(self, stmts, owner, fld):
        out = []
        for s in stmts:
            if isinstance(s, ast.Return) and s.value is not None and not isinstance(s.value, (ast.Name, ast.Constant)):
                out.append(ast.Assign(targets=[ast.Name(id="_sf_ret", ctx=ast.Store())], value=s.value, lineno=0))
                out.append(ast.Return(value=ast.Name(id="_sf_ret", ctx=ast.Load())))
            else:
                out.append(s)
        return out


class MergeIf(_Blocks):
    """if a: (if b: X)  ->  if a and b: X   (no else on either)"""

    def block(self, stmts, owner, fld):
        for s in stmts:
            while isinstance(s, ast.If) and not s.orelse and len(s.body) == 1 and isinstance(s.body[0], ast.If) and not s.body[0].orelse:
                inner = s.body[0]
                s.test = ast.BoolOp(op=ast.And(), values=[s.test, inner.test])
                s.body = inner.body
        return stmts


class SplitIf(_Blocks):
    """if a and b: X  ->  if a: if b: X   (no else)"""

    def block(self, stmts, owner, fld):
        for s in stmts:
            if isinstance(s, ast.If) and not s.orelse and isinstance(s.test, ast.BoolOp) and isinstance(s.test.op, ast.And):
                first, rest = s.test.values[0], s.test.values[1:]
                inner = ast.If(test=rest[0] if len(rest) == 1 else ast.BoolOp(op=ast.And(), values=rest), body=s.body, orelse=[])
                s.test, s.body = first, [inner]
        return stmts


class ElseDrop(_Blocks):
    """if A: ...; return|raise|continue|break  else: Y   ->   if A: ...; return   Y"""

    def block(self, stmts, owner, fld):
        out = []
        for s in stmts:
            if isinstance(s, ast.If) and s.orelse and _ends_flow(s.body) and not (len(s.orelse) == 1 and isinstance(s.orelse[0], ast.If)) \
                    and not (isinstance(owner, ast.If) and fld == "orelse" and len(stmts) == 1):
                tail, s.orelse = s.orelse, []
                out.append(s)
                out.extend(tail)
            else:
                out.append(s)
        return out


class WalrusOut(_Blocks):
    """if (x := e) ...:  ->  x = e; if x ...:   (only when the walrus is the first thing the test evaluates; not for elif)"""

    @staticmethod
    def _first(test):
        """(holder, attribute) of the NamedExpr evaluated first and unconditionally, or None."""
        node, path = test, None
        while True:
            if isinstance(node, ast.NamedExpr):
                return path
            if isinstance(node, ast.UnaryOp) and isinstance(node.op, ast.Not):
                node, path = node.operand, (node, "operand")
            elif isinstance(node, ast.Compare):
                node, path = node.left, (node, "left")
            elif isinstance(node, ast.BoolOp):
                nxt = node.values[0]
                holder = node
                node, path = nxt, (holder, 0)
            else:
                return None

    def block(self, stmts, owner, fld):
        if isinstance(owner, ast.If) and fld == "orelse" and len(stmts) == 1:
            return stmts
        out = []
        for s in stmts:
            if isinstance(s, ast.If):
                t = s.test
                if isinstance(t, ast.NamedExpr):
                    out.append(ast.Assign(targets=[ast.Name(id=t.target.id, ctx=ast.Store())], value=t.value, lineno=0))
                    s.test = ast.Name(id=t.target.id, ctx=ast.Load())
                else:
                    pth = self._first(t)
                    if pth is not None:
                        holder, key = pth
                        ne = holder.values[key] if isinstance(key, int) else getattr(holder, key)
                        out.append(ast.Assign(targets=[ast.Name(id=ne.target.id, ctx=ast.Store())], value=ne.value, lineno=0))
                        repl = ast.Name(id=ne.target.id, ctx=ast.Load())
                        if isinstance(key, int):
                            holder.values[key] = repl
                        else:
                            setattr(holder, key, repl)
            out.append(s)
        return out


class Comp2Loop(ast.NodeTransformer):
    """x = [elt for t in it if c]  ->  x = []; for t in it: if c: x.append(elt)   (single sync generator; the loop
    variables must not occur anywhere else in the function)"""

    def _fn(self, node):
        self.generic_visit(node)
        names = collections.Counter(n.id for n in ast.walk(node) if isinstance(n, ast.Name))
        args = {a.arg for a in ast.walk(node) if isinstance(a, ast.arg)}

        def rewrite(stmts):
            out = []
            for s in stmts:
                for fld in ("body", "orelse", "finalbody"):
                    b = getattr(s, fld, None)
                    if isinstance(b, list) and b and isinstance(b[0], ast.stmt) and not isinstance(s, (ast.FunctionDef, ast.AsyncFunctionDef, ast.ClassDef)):
                        setattr(s, fld, rewrite(b))
                if isinstance(s, ast.Try):
                    for h in s.handlers:
                        h.body = rewrite(h.body)
                ok = (isinstance(s, ast.Assign) and len(s.targets) == 1 and isinstance(s.targets[0], ast.Name) and isinstance(s.value, ast.ListComp)
                      and len(s.value.generators) == 1 and not s.value.generators[0].is_async)
                if ok:
                    comp = s.value
                    g = comp.generators[0]
                    inside = collections.Counter(n.id for n in ast.walk(comp) if isinstance(n, ast.Name))
                    tvars = {n.id for n in ast.walk(g.target) if isinstance(n, ast.Name)}
                    tgt = s.targets[0].id
                    ok = (all(names[v] == inside[v] and v not in args for v in tvars) and inside[tgt] == 0
                          and not any(isinstance(n, (ast.NamedExpr, ast.Await, ast.Yield, ast.YieldFrom, ast.Lambda, ast.ListComp, ast.GeneratorExp, ast.SetComp, ast.DictComp))
                                      for n in ast.walk(comp) if n is not comp))
                if ok:
                    body = [ast.Expr(value=ast.Call(func=ast.Attribute(value=ast.Name(id=tgt, ctx=ast.Load()), attr="append", ctx=ast.Load()), args=[comp.elt], keywords=[]))]
                    for c in reversed(g.ifs):
                        body = [ast.If(test=c, body=body, orelse=[])]
                    out.append(ast.Assign(targets=[ast.Name(id=tgt, ctx=ast.Store())], value=ast.List(elts=[], ctx=ast.Load()), lineno=0))
                    out.append(ast.For(target=g.target, iter=g.iter, body=body, orelse=[], lineno=0))
                else:
                    out.append(s)
            return out

        node.body = rewrite(node.body)
        return node

    visit_FunctionDef = _fn
    visit_AsyncFunctionDef = _fn


def _simple(e):
    """side-effect free operand: names, constants, attribute chains of names, len(<simple>)"""
    if isinstance(e, (ast.Name, ast.Constant)):
        return True
    if isinstance(e, ast.Attribute):
        return _simple(e.value)
    return False


class CmpFlip(ast.NodeTransformer):
    """a == b -> b == a, a < b -> b > a ... for side-effect free operands (single comparison)"""
    SWAP = {ast.Eq: ast.Eq, ast.NotEq: ast.NotEq, ast.Lt: ast.Gt, ast.Gt: ast.Lt, ast.LtE: ast.GtE, ast.GtE: ast.LtE, ast.Is: ast.Is, ast.IsNot: ast.IsNot}

    def visit_Compare(self, node):
        self.generic_visit(node)
        if len(node.ops) == 1 and type(node.ops[0]) in self.SWAP and _simple(node.left) and _simple(node.comparators[0]) \
                and not (isinstance(node.comparators[0], ast.Constant) and node.comparators[0].value is None):
            return ast.Compare(left=node.comparators[0], ops=[self.SWAP[type(node.ops[0])]()], comparators=[node.left])
        return node


class NotForm(ast.NodeTransformer):
    """a not in b -> not (a in b); a is not b -> not (a is b)"""

    def visit_Compare(self, node):
        self.generic_visit(node)
        if len(node.ops) == 1 and isinstance(node.ops[0], (ast.NotIn, ast.IsNot)):
            op = ast.In() if isinstance(node.ops[0], ast.NotIn) else ast.Is()
            return ast.UnaryOp(op=ast.Not(), operand=ast.Compare(left=node.left, ops=[op], comparators=node.comparators))
        return node


class Lambda2Def(_Blocks):
    """x = f(lambda a: e, ...) / plain statements using a lambda without free loop-variable capture problems:
    the lambda is replaced by a named nested function defined immediately before the statement (same closure scope)."""

    def __init__(self):
        self.n = 0

    def block(self, stmts, owner, fld):
        if isinstance(owner, (ast.ClassDef, ast.Module)):
            return stmts
        out = []
        for s in stmts:
            if isinstance(s, (ast.Expr, ast.Assign, ast.Return, ast.AugAssign, ast.AnnAssign)):
                lams = []
                for n in ast.walk(s):
                    if isinstance(n, ast.Lambda):
                        lams.append(n)
                # only lambdas that are not nested in comprehensions / other lambdas (their free variables would change scope)
                safe = []
                for lam in lams:
                    par_ok = True
                    for n in ast.walk(s):
                        if isinstance(n, (ast.ListComp, ast.SetComp, ast.DictComp, ast.GeneratorExp, ast.Lambda)) and n is not lam and lam in ast.walk(n):
                            par_ok = False
                    if par_ok and not any(isinstance(x, (ast.Yield, ast.YieldFrom, ast.Await, ast.NamedExpr)) for x in ast.walk(lam)):
                        safe.append(lam)
                for lam in safe:
                    self.n += 1
                    name = f"_sf_fn{self.n}"
                    out.append(ast.FunctionDef(name=name, args=lam.args, body=[ast.Return(value=lam.body)], decorator_list=[], returns=None, type_comment=None, type_params=[], lineno=0))

                    class R(ast.NodeTransformer):
                        def visit_Lambda(self, node, lam=lam, name=name):
                            return ast.Name(id=name, ctx=ast.Load()) if node is lam else self.generic_visit(node)

                    s = R().visit(s)
            out.append(s)
        return out


class Fmt2F(ast.NodeTransformer):
    """'..{}..{}'.format(a, b) -> f'..{a}..{b}' for constant templates with plain positional `{}` fields only"""

    def visit_Call(self, node):
        self.generic_visit(node)
        f = node.func
        if isinstance(f, ast.Attribute) and f.attr == "format" and isinstance(f.value, ast.Constant) and isinstance(f.value.value, str) \
                and not node.keywords and node.args and not any(isinstance(a, ast.Starred) for a in node.args):
            tpl = f.value.value
            import string
            try:
                parts = list(string.Formatter().parse(tpl))
            except ValueError:
                return node
            if sum(1 for _l, fld, _s, _c in parts if fld is not None) != len(node.args):
                return node
            if any(fld not in (None, "") or spec or conv for _l, fld, spec, conv in parts):
                return node
            vals, i = [], 0
            for lit, fld, _spec, _conv in parts:
                if lit:
                    vals.append(ast.Constant(value=lit))
                if fld is not None:
                    vals.append(ast.FormattedValue(value=node.args[i], conversion=-1, format_spec=None))
                    i += 1
            return ast.JoinedStr(values=vals)
        return node


class TestTemp(_Blocks):
    """if L op R: ...  ->  _sf_l = L; if _sf_l op R: ...   when L is the first thing the test evaluates (plain `if`, not
    elif), L is a call / subscript / attribute chain / arithmetic (no await, no walrus), so the evaluation order is kept."""

    @staticmethod
    def _slot(test):
        node, path = test, None
        while True:
            if isinstance(node, ast.UnaryOp) and isinstance(node.op, ast.Not):
                node, path = node.operand, (node, "operand")
            elif isinstance(node, ast.BoolOp):
                holder = node
                node, path = node.values[0], (holder, 0)
            elif isinstance(node, ast.Compare):
                return (node, "left")
            else:
                return None

    def __init__(self):
        self.n = 0

    def block(self, stmts, owner, fld):
        if isinstance(owner, ast.If) and fld == "orelse" and len(stmts) == 1:
            return stmts
        out = []
        for s in stmts:
            if isinstance(s, ast.If):
                sl = self._slot(s.test)
                if sl is not None:
                    holder, key = sl
                    left = getattr(holder, key)
                    if isinstance(left, (ast.Call, ast.Subscript, ast.BinOp)) and not any(isinstance(x, (ast.Await, ast.NamedExpr, ast.Yield, ast.YieldFrom, ast.Lambda)) for x in ast.walk(left)):
                        self.n += 1
                        name = f"_sf_l{self.n}"
                        out.append(ast.Assign(targets=[ast.Name(id=name, ctx=ast.Store())], value=left, lineno=0))
                        setattr(holder, key, ast.Name(id=name, ctx=ast.Load()))
            out.append(s)
        return out


KINDS = {"rename": Renamer, "pad": Padder, "ifswap": IfSwap, "guard": Guard, "tempret": TempRet, "mergeif": MergeIf, "splitif": SplitIf,
         "elsedrop": ElseDrop, "walrusout": WalrusOut, "comp2loop": Comp2Loop, "cmpflip": CmpFlip, "notform": NotForm,
         "lambda2def": Lambda2Def, "fmt2f": Fmt2F, "testtemp": TestTemp}


def variant_source(src, kind):
    tree = ast.parse(src)
    tree = KINDS[kind]().visit(tree)
    ast.fix_missing_locations(tree)
    return ast.unparse(tree) + "\n"


_PROG = None
_BASE = {}


def _init():
    global _PROG
    _PROG = Program("/repo")


def work(job):
    rel, kind, props = job
    global _PROG, _BASE
    if _PROG is None:
        _init()
    out = []
    try:
        src = variant_source(_PROG.by_relpath[rel].source, kind)
        vp = _PROG.with_override(rel, src)
    except Exception as e:  # noqa
        return [(rel, kind, "*", f"variant construction failed: {e}")]
    for prop in props:
        mod = load_rules(prop)
        if prop not in _BASE:
            _BASE[prop] = {(f.rule, f.qualname) for f in run_rules_on(_PROG, prop, mod, "quick").findings}
        try:
            fs = run_rules_on(vp, prop, mod, "quick").findings
            new = {(f.rule, f.qualname, f.message[:110]) for f in fs if (f.rule, f.qualname) not in _BASE[prop]}
            for r, q, m in sorted(new):
                out.append((rel, kind, prop, f"FINDING {r} {q}: {m}"))
        except AnalysisError as e:
            out.append((rel, kind, prop, f"ANALYSIS-ERROR {str(e)[:160]}"))
        except Exception as e:  # noqa
            out.append((rel, kind, prop, f"CRASH {type(e).__name__}: {str(e)[:120]}"))
    return out


def main():
    args = sys.argv[1:]
    def opt(name, default):
        return args[args.index(name) + 1] if name in args else default
    kinds = opt("--kinds", "rename,pad").split(",")
    mods = opt("--modules", "").split(",") if "--modules" in args else None
    ready = json.load(open(os.path.join(os.path.dirname(os.path.dirname(os.path.abspath(__file__))), "ready.json")))
    props = opt("--props", ",".join(ready)).split(",")
    jobs_n = int(opt("-j", "14"))
    prog = Program("/repo")
    rels = [m.relpath for m in prog.modules.values() if "/antlr/" not in m.relpath and (mods is None or any(s in m.relpath for s in mods))]
    jobs = [(rel, k, props) for rel in sorted(rels) for k in kinds]
    t0 = time.time()
    bad = 0
    with ProcessPoolExecutor(jobs_n) as ex:
        for res in ex.map(work, jobs, chunksize=2):
            for rel, kind, prop, msg in res:
                bad += 1
                print(f"{prop} [{kind}] {rel}: {msg}")
    print(f"battery: {len(jobs)} module variants x {len(props)} checks, {bad} alarms, {time.time() - t0:.0f}s")
    return 1 if bad else 0


if __name__ == "__main__":
    sys.exit(main())
