#!/venv/bin/python
"""Benign-edit battery: behaviour-preserving whole-module rewrites must not make any check fire or refuse.

For every module of /repo/streamflow (generated parser excluded) two in-memory variants are built:
  rename : every local variable of every function is renamed (x -> x_r), consistently in the function subtree
  pad    : a `pass` statement is inserted at the start of every statement block
and every ready check is run against the variant program.  Any new finding or analysis error is printed.

usage: tools/benign_battery.py [--kinds rename,pad] [--modules substr,...] [--props C10,C11] [-j N]
"""
import ast, builtins, json, os, sys, time
from concurrent.futures import ProcessPoolExecutor

sys.path.insert(0, os.path.dirname(os.path.dirname(os.path.abspath(__file__))))
from sfverif.model import AnalysisError, Program  # noqa: E402
from sfverif.__main__ import load_rules, run_rules_on  # noqa: E402

BUILTINS = set(dir(builtins))


def local_names(fn):
    params = {a.arg for a in fn.args.posonlyargs + fn.args.args + fn.args.kwonlyargs}
    if fn.args.vararg:
        params.add(fn.args.vararg.arg)
    if fn.args.kwarg:
        params.add(fn.args.kwarg.arg)
    stored, banned = set(), set(params)
    for n in ast.walk(fn):
        if n is fn:
            continue
        if isinstance(n, (ast.FunctionDef, ast.AsyncFunctionDef, ast.Lambda)):
            a = n.args
            for x in a.posonlyargs + a.args + a.kwonlyargs + [y for y in (a.vararg, a.kwarg) if y]:
                banned.add(x.arg)
            if not isinstance(n, ast.Lambda):
                banned.add(n.name)
        elif isinstance(n, ast.ClassDef):
            banned.add(n.name)
        elif isinstance(n, (ast.Global, ast.Nonlocal)):
            banned.update(n.names)
        elif isinstance(n, ast.Name) and isinstance(n.ctx, (ast.Store, ast.Del)):
            stored.add(n.id)
        elif isinstance(n, ast.ExceptHandler) and n.name:
            banned.add(n.name)
        elif isinstance(n, (ast.Import, ast.ImportFrom)):
            for al in n.names:
                banned.add((al.asname or al.name).split(".")[0])
        elif isinstance(n, ast.MatchAs) and n.name:
            banned.add(n.name)
        elif isinstance(n, ast.MatchStar) and n.name:
            banned.add(n.name)
    return {x for x in stored if x not in banned and x not in BUILTINS and not x.startswith("__")}


class Renamer(ast.NodeTransformer):
    def __init__(self):
        self.stack = []

    def _fn(self, node):
        outer = bool(self.stack)
        names = local_names(node) if not outer else set()
        self.stack.append(names)
        self.generic_visit(node)
        self.stack.pop()
        return node

    visit_FunctionDef = _fn
    visit_AsyncFunctionDef = _fn

    def visit_Name(self, node):
        if self.stack and node.id in self.stack[0]:
            node.id = node.id + "_r"
        return node


class Padder(ast.NodeTransformer):
    def generic_visit(self, node):
        super().generic_visit(node)
        for fld in ("body", "orelse", "finalbody"):
            b = getattr(node, fld, None)
            if isinstance(b, list) and b and isinstance(b[0], ast.stmt) and not isinstance(node, (ast.Module, ast.ClassDef)):
                start = 1 if (isinstance(b[0], ast.Expr) and isinstance(b[0].value, ast.Constant) and isinstance(b[0].value.value, str)) else 0
                b.insert(start, ast.Pass())
        return node


def variant_source(src, kind):
    tree = ast.parse(src)
    tree = (Renamer() if kind == "rename" else Padder()).visit(tree)
    ast.fix_missing_locations(tree)
    return ast.unparse(tree) + "\n"


_PROG = None
_BASE = {}


def _init():
    global _PROG
    _PROG = Program("/repo")


def work(job):
    rel, kind, props = job
    global _PROG, _BASE
    if _PROG is None:
        _init()
    out = []
    try:
        src = variant_source(_PROG.by_relpath[rel].source, kind)
        vp = _PROG.with_override(rel, src)
    except Exception as e:  # noqa
        return [(rel, kind, "*", f"variant construction failed: {e}")]
    for prop in props:
        mod = load_rules(prop)
        if prop not in _BASE:
            _BASE[prop] = {(f.rule, f.qualname) for f in run_rules_on(_PROG, prop, mod, "quick").findings}
        try:
            fs = run_rules_on(vp, prop, mod, "quick").findings
            new = {(f.rule, f.qualname, f.message[:110]) for f in fs if (f.rule, f.qualname) not in _BASE[prop]}
            for r, q, m in sorted(new):
                out.append((rel, kind, prop, f"FINDING {r} {q}: {m}"))
        except AnalysisError as e:
            out.append((rel, kind, prop, f"ANALYSIS-ERROR {str(e)[:160]}"))
        except Exception as e:  # noqa
            out.append((rel, kind, prop, f"CRASH {type(e).__name__}: {str(e)[:120]}"))
    return out


def main():
    args = sys.argv[1:]
    def opt(name, default):
        return args[args.index(name) + 1] if name in args else default
    kinds = opt("--kinds", "rename,pad").split(",")
    mods = opt("--modules", "").split(",") if "--modules" in args else None
    ready = json.load(open(os.path.join(os.path.dirname(os.path.dirname(os.path.abspath(__file__))), "ready.json")))
    props = opt("--props", ",".join(ready)).split(",")
    jobs_n = int(opt("-j", "14"))
    prog = Program("/repo")
    rels = [m.relpath for m in prog.modules.values() if "/antlr/" not in m.relpath and (mods is None or any(s in m.relpath for s in mods))]
    jobs = [(rel, k, props) for rel in sorted(rels) for k in kinds]
    t0 = time.time()
    bad = 0
    with ProcessPoolExecutor(jobs_n) as ex:
        for res in ex.map(work, jobs, chunksize=2):
            for rel, kind, prop, msg in res:
                bad += 1
                print(f"{prop} [{kind}] {rel}: {msg}")
    print(f"battery: {len(jobs)} module variants x {len(props)} checks, {bad} alarms, {time.time() - t0:.0f}s")
    return 1 if bad else 0


if __name__ == "__main__":
    sys.exit(main())
