#!/venv/bin/python
import json, os, sys
d = sys.argv[1] if len(sys.argv) > 1 else "/tmp/seed_fast"
for f in sorted(os.listdir(d)):
    t = open(os.path.join(d, f)).read()
    try:
        r = json.loads(t[t.index("{"):])
    except Exception:
        print(f, "PARSE/empty"); continue
    own = f.split("-")[0]
    det = list(r.get("detected_by", {}))
    print(f"{f[:-5]:8s} clean={r.get('demo_clean_exit')} mut={r.get('demo_mutated_exit')} applies={r.get('applies')} "
          f"{'DETECTED' if det else 'missed  '} by={det} err={list(r.get('analysis_errors', {}))}")
