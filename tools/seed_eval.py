#!/venv/bin/python
"""Verify a candidate seeded change and evaluate which checks detect it.

usage: tools/seed_eval.py <src_dir with patch.diff demo.py meta.json> <seed id> [--no-tests] [--keep]
  1. scratch worktree of /repo HEAD under /tmp/sv/<id>; demo on the clean tree must exit 0
  2. apply patch (3-way); demo must exit != 0; stable suite (isolated HOME) must still pass 171
  3. run every ready check (quick) with --root <worktree>: which properties report a VIOLATION
  4. store /verif/seeded/<id>/{patch.diff,demo.py,meta.json}; remove the worktree
"""
import json, os, shutil, subprocess, sys, tempfile, concurrent.futures as cf
import xml.etree.ElementTree as ET

VERIF = "/verif"
PY = "/venv/bin/python"


def sh(cmd, cwd=None, env=None, timeout=1800):
    r = subprocess.run(cmd, cwd=cwd, env=env, stdout=subprocess.PIPE, stderr=subprocess.STDOUT, text=True, timeout=timeout)
    return r.returncode, r.stdout


def run_demo(wt, demo):
    env = dict(os.environ, PYTHONPATH=wt, HOME=tempfile.mkdtemp(prefix="svh"))
    try:
        rc, out = sh([PY, demo], cwd=wt, env=env, timeout=900)
    except subprocess.TimeoutExpired:
        rc, out = 124, "TIMEOUT"
    shutil.rmtree(env["HOME"], ignore_errors=True)
    return rc, out[-1500:]


def _pytest(wt, args, n, per_test, overall):
    """Run pytest -v and return the ids (BASELINE style) of the tests reported PASSED, also when the
    session hangs and is killed by the overall timeout (the partial output is used)."""
    import re

    td = tempfile.mkdtemp(prefix="svt")
    env = dict(os.environ, HOME=td)
    cmd = [PY, "-m", "pytest", "-v", "-p", "no:cacheprovider", f"--timeout={per_test}", "-n", str(n), *args]
    proc = subprocess.Popen(cmd, cwd=wt, env=env, stdout=subprocess.PIPE, stderr=subprocess.STDOUT, text=True, start_new_session=True)
    try:
        out, _ = proc.communicate(timeout=overall)
    except subprocess.TimeoutExpired:
        import signal

        try:
            os.killpg(proc.pid, signal.SIGKILL)
        except Exception:
            pass
        out, _ = proc.communicate()
    shutil.rmtree(td, ignore_errors=True)
    passed = set()
    for m in re.finditer(r"PASSED (tests/[\w/]+)\.py::(\S+)", out or ""):
        passed.add(m.group(1).replace("/", ".") + "::" + m.group(2))
    return passed


def stable_tests(wt):
    """Missing stable tests with the patch applied.  test_cwl_loop is run apart with few workers
    (it hangs sporadically under load: idle nodejs children), missing tests are retried once alone."""
    base = json.load(open("/root/.vp/BASELINE.json"))
    # one pytest process per file: a combined xdist session sporadically hangs in its teardown here
    groups = [(["tests/test_recovery.py"], 6), (["tests/test_cwl_loop.py"], 3), (["tests/test_schema.py"], 2),
              (["tests/test_recovery_utils.py", "tests/test_binding_filter.py"], 2), (["tests/test_translator.py"], 2),
              (["tests/test_scheduler.py::test_hardware", "tests/test_connector.py::test_command_template"], 2)]
    passed = set()
    for g in groups:  # sequential: parallel sessions make the recovery tests dead-lock more often
        passed |= _pytest(wt, g[0], g[1], 90, 240)
    missing = [t for t in base["stable_pass"] if t not in passed]
    if missing and len(missing) <= 40:
        ids = []
        for t in missing:
            mod, _, name = t.partition("::")
            ids.append(mod.replace(".", "/") + ".py::" + name)
        passed |= _pytest(wt, ids, 4, 120, 400)
        missing = [t for t in base["stable_pass"] if t not in passed]
        if missing and len(missing) <= 10:
            ids = [t.partition('::')[0].replace('.', '/') + '.py::' + t.partition('::')[2] for t in missing]
            passed |= _pytest(wt, ids, 1, 120, 600)
        missing = [t for t in base["stable_pass"] if t not in passed]
    return missing


def run_check(prop, root):
    rc, out = sh([PY, "-m", "sfverif", "check", prop, "--tier", "quick", "--root", root, "--no-evidence"], cwd=VERIF, timeout=600)
    lines = [l for l in out.splitlines() if l.startswith(("  streamflow", "ANALYSIS-ERROR", "VIOLATION"))]
    return prop, rc, lines[:8]


def main():
    src, sid = sys.argv[1], sys.argv[2]
    no_tests = "--no-tests" in sys.argv
    wt = f"/tmp/sv/{sid}"
    os.makedirs("/tmp/sv", exist_ok=True)
    subprocess.run(["git", "-C", "/repo", "worktree", "remove", "--force", wt], capture_output=True)
    subprocess.check_call(["git", "-C", "/repo", "worktree", "add", "-q", "--detach", wt, "HEAD"])
    res = {"seed": sid}
    try:
        # mirror the tester's layout: <worktree>/_mut/<k>/demo.py (+ helper modules in <worktree>/_mut/)
        k = os.path.basename(os.path.abspath(src))
        os.makedirs(os.path.join(wt, "_mut", k), exist_ok=True)
        demo = os.path.join(wt, "_mut", k, "demo.py")
        shutil.copy(os.path.join(src, "demo.py"), demo)
        helpers = []
        pdir = os.path.dirname(os.path.abspath(src))
        for extra in os.listdir(pdir):
            ep = os.path.join(pdir, extra)
            if extra.endswith(".py") and os.path.isfile(ep):
                shutil.copy(ep, os.path.join(wt, "_mut", extra))
                helpers.append(extra)
        rc0, out0 = run_demo(wt, demo)
        res["demo_clean_exit"] = rc0
        rc, out = sh(["git", "apply", "--3way", "--whitespace=nowarn", os.path.join(src, "patch.diff")], cwd=wt)
        if rc != 0:
            rc, out = sh(["git", "apply", "--whitespace=nowarn", os.path.join(src, "patch.diff")], cwd=wt)
        res["applies"] = rc == 0
        if rc != 0:
            res["apply_output"] = out[-800:]
            print(json.dumps(res, indent=1))
            return 2
        sh(["git", "reset", "-q"], cwd=wt)
        rc1, out1 = run_demo(wt, demo)
        res["demo_mutated_exit"] = rc1
        res["demo_mutated_tail"] = out1[-600:]
        if rc0 != 0:
            res["demo_clean_tail"] = out0[-600:]
        if not no_tests:
            res["stable_tests_missing"] = stable_tests(wt)
        ready = json.load(open(os.path.join(VERIF, "ready.json")))
        det = {}
        with cf.ThreadPoolExecutor(8) as ex:
            for prop, rc, lines in ex.map(lambda p: run_check(p, wt), ready):
                if rc != 0:
                    det[prop] = {"rc": rc, "lines": lines}
        res["detected_by"] = {k: v for k, v in det.items() if v["rc"] == 1}
        res["analysis_errors"] = {k: v for k, v in det.items() if v["rc"] == 2}
        valid = rc0 == 0 and rc1 not in (0, 124) and not res.get("stable_tests_missing")
        res["valid_seed"] = bool(valid)
        if valid and not no_tests:
            dst = os.path.join(VERIF, "seeded", sid)
            os.makedirs(dst, exist_ok=True)
            shutil.copy(os.path.join(src, "patch.diff"), dst)
            shutil.copy(os.path.join(src, "demo.py"), dst)
            for h in helpers:
                os.makedirs(os.path.join(dst, "helpers"), exist_ok=True)
                shutil.copy(os.path.join(pdir, h), os.path.join(dst, "helpers", h))
            meta = {}
            mp = os.path.join(src, "meta.json")
            if os.path.exists(mp):
                try:
                    meta = json.load(open(mp))
                except Exception:
                    meta = {"raw": open(mp).read()[:2000]}
            meta.pop("tests", None)
            head = subprocess.check_output(["git", "-C", "/repo", "rev-parse", "--short", "HEAD"], text=True).strip()
            meta["verified"] = {
                "repo_head": head,
                "ran": [
                    "scratch worktree <wt> of /repo HEAD; demo copied to <wt>/_mut/<k>/demo.py (helpers/ to <wt>/_mut/); `cd <wt> && python _mut/<k>/demo.py` on the clean tree -> exit %d" % rc0,
                    "git apply patch.diff; demo.py -> exit %d" % rc1,
                    "stable suite (8 test files, isolated HOME, -n 8) with the patch: missing stable tests = %s" % res.get("stable_tests_missing", "not run"),
                    "every ready check, quick tier, --root <worktree>",
                ],
                "detected_by": sorted(res["detected_by"]),
                "detection_lines": {k: v["lines"][:3] for k, v in res["detected_by"].items()},
                "analysis_errors": sorted(res["analysis_errors"]),
            }
            json.dump(meta, open(os.path.join(dst, "meta.json"), "w"), indent=1)
        print(json.dumps(res, indent=1)[:3000])
        return 0
    finally:
        if "--keep" not in sys.argv:
            subprocess.run(["git", "-C", "/repo", "worktree", "remove", "--force", wt], capture_output=True)
            shutil.rmtree(wt, ignore_errors=True)


if __name__ == "__main__":
    sys.exit(main())
