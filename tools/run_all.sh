#!/bin/bash
# run every ready check (tier $1, default quick) in parallel; print a one-line status per property
cd /verif
tier=${1:-quick}
props=$(/venv/bin/python -c "import json;print(' '.join(json.load(open('ready.json'))))")
for p in $props; do
  ( out=$(/venv/bin/python -m sfverif check $p --tier $tier 2>&1); rc=$?; echo "$p rc=$rc $(echo "$out" | grep -E "^$p \[" | head -1)"; if [ $rc -ne 0 ]; then echo "$out" | grep -E "VIOLATION|ANALYSIS-ERROR" | head -5; fi ) &
done
wait
