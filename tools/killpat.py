#!/venv/bin/python
"""kill processes whose command line contains any of the given substrings (never this process or its ancestors)"""
import os, signal, sys
pats = sys.argv[1:]
me = os.getpid()
anc = set()
p = me
while p > 1:
    anc.add(p)
    try:
        p = int(open(f"/proc/{p}/stat").read().split(")")[1].split()[1])
    except Exception:
        break
n = 0
for d in os.listdir("/proc"):
    if not d.isdigit() or int(d) in anc:
        continue
    try:
        cmd = open(f"/proc/{d}/cmdline", "rb").read().replace(b"\0", b" ").decode(errors="replace")
    except Exception:
        continue
    if any(x in cmd for x in pats) and "killpat.py" not in cmd:
        try:
            os.kill(int(d), signal.SIGKILL); n += 1
        except Exception:
            pass
print("killed", n)
