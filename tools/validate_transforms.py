#!/venv/bin/python
"""Validate the mechanical refactorings of tools/benign_battery.py: apply one kind to every module of a scratch
worktree of /repo HEAD and run the 171 stable tests on it (they must all pass, otherwise the transformer is not
behaviour-preserving and must not be used as a false-alarm oracle).  usage: tools/validate_transforms.py kind [kind...]"""
import os, shutil, subprocess, sys
sys.path.insert(0, os.path.dirname(os.path.abspath(__file__)))
import benign_battery as bb  # noqa: E402
import seed_eval  # noqa: E402

for kind in sys.argv[1:]:
    wt = f"/tmp/sv/tk-{kind}"
    subprocess.run(["git", "-C", "/repo", "worktree", "remove", "--force", wt], capture_output=True)
    shutil.rmtree(wt, ignore_errors=True)
    subprocess.check_call(["git", "-C", "/repo", "worktree", "add", "-q", "--detach", wt, "HEAD"])
    try:
        n = 0
        for root, _d, files in os.walk(os.path.join(wt, "streamflow")):
            if "/antlr" in root:
                continue
            for f in files:
                if f.endswith(".py"):
                    p = os.path.join(root, f)
                    src = open(p).read()
                    new = bb.variant_source(src, kind)
                    if new != src:
                        open(p, "w").write(new)
                        n += 1
        missing = seed_eval.stable_tests(wt)
        print(f"{kind}: {n} modules rewritten; stable tests missing: {len(missing)} {sorted(missing)[:6]}", flush=True)
    finally:
        subprocess.run(["git", "-C", "/repo", "worktree", "remove", "--force", wt], capture_output=True)
        shutil.rmtree(wt, ignore_errors=True)
