#!/venv/bin/python
"""Regenerate the seeded-change table of DESIGN.md (between the SEED-TABLE markers) from /verif/seeded/*/meta.json."""
import os, subprocess, re
root = os.path.dirname(os.path.dirname(os.path.abspath(__file__)))
tab = subprocess.check_output(["/venv/bin/python", os.path.join(root, "tools", "seed_table.py")], text=True)
p = os.path.join(root, "DESIGN.md")
s = open(p).read()
B, E = "<!-- SEED-TABLE-BEGIN -->", "<!-- SEED-TABLE-END -->"
block = f"{B}\n\n{tab}\n{E}"
if B in s:
    s = re.sub(re.escape(B) + r".*?" + re.escape(E), lambda m: block, s, flags=re.S)
else:
    marker = "\n\n### 8.5 False-alarm evaluation"
    s = s.replace(marker, "\n\nWhich check reports which kept change (quick tier, rules as committed; `b` = second round, `c` = third round):\n\n" + block + marker, 1)
open(p, "w").write(s)
print("table rows:", tab.count("\n| C"))
