#!/venv/bin/python
"""usage: tools/fix2_gen.py "<mods>" "<alarm lines; separated by |>" "<miss lines; separated by |>"  -> prompt on stdout"""
import os, sys
t = open(os.path.join(os.path.dirname(os.path.abspath(__file__)), "fix2_prompt.md")).read()
fmt = lambda s: "\n".join("* " + x.strip() for x in s.split("|") if x.strip()) or "(none)"
print(t.replace("{MODS}", sys.argv[1]).replace("{ALARMS}", fmt(sys.argv[2])).replace("{MISSES}", fmt(sys.argv[3])))
