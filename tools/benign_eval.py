#!/venv/bin/python
"""Apply each behaviour-preserving refactoring (/tmp/wt/B*/_ben/<i>/patch.diff) in a scratch worktree of /repo HEAD and run
every ready check with --root: any exit code != 0 is a false alarm (1) or a refusal (2) to fix.
usage: tools/benign_eval.py [-j N] [patch dirs...]"""
import glob, json, os, shutil, subprocess, sys
from concurrent.futures import ThreadPoolExecutor

VERIF, PY = "/verif", "/venv/bin/python"


def one(d):
    bid = d.rstrip("/").split("/")[-3] + "-" + d.rstrip("/").split("/")[-1]
    wt = f"/tmp/sv/bn-{bid}"
    subprocess.run(["git", "-C", "/repo", "worktree", "remove", "--force", wt], capture_output=True)
    shutil.rmtree(wt, ignore_errors=True)
    subprocess.check_call(["git", "-C", "/repo", "worktree", "add", "-q", "--detach", wt, "HEAD"])
    out = []
    try:
        r = subprocess.run(["git", "apply", "--3way", "--whitespace=nowarn", os.path.join(d, "patch.diff")], cwd=wt, capture_output=True, text=True)
        if r.returncode != 0:
            return bid, [("-", "patch does not apply")]
        for p in json.load(open(os.path.join(VERIF, "ready.json"))):
            rr = subprocess.run([PY, "-m", "sfverif", "check", p, "--tier", "quick", "--root", wt, "--no-evidence"], cwd=VERIF, capture_output=True, text=True)
            if rr.returncode != 0:
                lines = [l.strip()[:260] for l in rr.stdout.splitlines() if l.startswith(("  streamflow", "ANALYSIS-ERROR"))][:3]
                out.append((p, f"rc={rr.returncode} " + " || ".join(lines)))
        return bid, out
    finally:
        subprocess.run(["git", "-C", "/repo", "worktree", "remove", "--force", wt], capture_output=True)
        shutil.rmtree(wt, ignore_errors=True)


args = sys.argv[1:]
j = 4
if "-j" in args:
    j = int(args[args.index("-j") + 1]); del args[args.index("-j"):args.index("-j") + 2]
dirs = args or sorted(d for d in glob.glob("/tmp/wt/B*/_ben/[0-9]*") if os.path.exists(os.path.join(d, "patch.diff")))
bad = 0
with ThreadPoolExecutor(j) as ex:
    for bid, out in ex.map(one, dirs):
        if out:
            bad += 1
            for p, msg in out:
                print(f"ALARM {bid} {p}: {msg}")
        else:
            print(f"silent {bid}")
print(f"benign refactorings: {len(dirs)} evaluated, {bad} with alarms")
