#!/venv/bin/python
"""Run the pinned suite (guard off) and compare with /root/.vp/BASELINE.json stable_pass.
usage: tools/baseline.py [repo_dir] [-n JOBS]"""
import json, os, subprocess, sys, tempfile
import xml.etree.ElementTree as ET

repo = sys.argv[1] if len(sys.argv) > 1 and not sys.argv[1].startswith("-") else "/repo"
jobs = sys.argv[sys.argv.index("-n") + 1] if "-n" in sys.argv else None
base = json.load(open("/root/.vp/BASELINE.json"))
with tempfile.TemporaryDirectory() as td:
    xml = os.path.join(td, "junit.xml")
    cmd = ["/venv/bin/python", "-m", "pytest", "-ra", "-q", "-p", "no:cacheprovider", "--timeout=900",
           "--continue-on-collection-errors", f"--junitxml={xml}"]
    if jobs:
        cmd += ["-n", jobs]
    env = dict(os.environ)
    env.pop("STREAMFLOW_VERIF", None)
    if "--isolate" in sys.argv:
        env["HOME"] = td  # the suite shares ~/.streamflow/<version>/sqlite.db: isolate from concurrent runs
    r = subprocess.run(cmd, cwd=repo, env=env, stdout=subprocess.PIPE, stderr=subprocess.STDOUT, text=True)
    passed = set()
    for tc in ET.parse(xml).getroot().iter("testcase"):
        if not any(ch.tag in ("failure", "error", "skipped") for ch in tc):
            passed.add(f"{tc.get('classname')}::{tc.get('name')}")
missing = [t for t in base["stable_pass"] if t not in passed]
print(f"stable_pass={len(base['stable_pass'])} passed_now={len(passed)} missing={len(missing)}")
for t in missing[:40]:
    print("  MISSING", t)
sys.exit(1 if missing else 0)
