#!/venv/bin/python
"""Re-evaluate which checks report each kept seeded change (/verif/seeded/<id>/patch.diff) with the current rules.
Applies the patch in a scratch worktree of /repo HEAD, runs every ready check (quick, --root), updates meta.json.
usage: tools/seed_refresh.py [-j N] [ids...]"""
import json, os, subprocess, sys, shutil
from concurrent.futures import ThreadPoolExecutor

VERIF = "/verif"
PY = "/venv/bin/python"


def one(sid):
    d = os.path.join(VERIF, "seeded", sid)
    wt = f"/tmp/sv/rf-{sid}"
    subprocess.run(["git", "-C", "/repo", "worktree", "remove", "--force", wt], capture_output=True)
    shutil.rmtree(wt, ignore_errors=True)
    subprocess.check_call(["git", "-C", "/repo", "worktree", "add", "-q", "--detach", wt, "HEAD"])
    try:
        r = subprocess.run(["git", "apply", "--3way", "--whitespace=nowarn", os.path.join(d, "patch.diff")], cwd=wt, capture_output=True, text=True)
        if r.returncode != 0:
            r = subprocess.run(["git", "apply", "--whitespace=nowarn", os.path.join(d, "patch.diff")], cwd=wt, capture_output=True, text=True)
        if r.returncode != 0:
            return sid, None, "patch does not apply to HEAD"
        ready = json.load(open(os.path.join(VERIF, "ready.json")))
        det, err, lines = [], [], {}
        for p in ready:
            rr = subprocess.run([PY, "-m", "sfverif", "check", p, "--tier", "quick", "--root", wt, "--no-evidence"], cwd=VERIF, capture_output=True, text=True)
            if rr.returncode == 1:
                det.append(p)
                lines[p] = [l.strip()[:300] for l in rr.stdout.splitlines() if l.startswith("  streamflow")][:2]
            elif rr.returncode == 2:
                err.append(p)
        m = json.load(open(os.path.join(d, "meta.json")))
        v = m.setdefault("verified", {})
        v["detected_by"] = det
        v["detection_lines"] = lines
        v["analysis_errors"] = err
        v["detection_evaluated_at_repo_head"] = subprocess.check_output(["git", "-C", "/repo", "rev-parse", "--short", "HEAD"], text=True).strip()
        v["detection_evaluated_at_verif_head"] = subprocess.check_output(["git", "-C", VERIF, "rev-parse", "--short", "HEAD"], text=True).strip()
        json.dump(m, open(os.path.join(d, "meta.json"), "w"), indent=1)
        return sid, det, err
    finally:
        subprocess.run(["git", "-C", "/repo", "worktree", "remove", "--force", wt], capture_output=True)
        shutil.rmtree(wt, ignore_errors=True)


def main():
    args = sys.argv[1:]
    j = 4
    if "-j" in args:
        j = int(args[args.index("-j") + 1]); del args[args.index("-j"):args.index("-j") + 2]
    ids = args or sorted(os.listdir(os.path.join(VERIF, "seeded")))
    with ThreadPoolExecutor(j) as ex:
        for sid, det, err in ex.map(one, ids):
            print(sid, "DETECTED" if det else "missed", det, "err", err)


main()
