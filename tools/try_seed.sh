#!/bin/bash
# usage: tools/try_seed.sh <Cxx> <k> [props...]   apply /tmp/wt/Cxx/_mut/k/patch.diff in a scratch worktree and run the named checks (default: own property)
P=$1; K=$2; shift 2; PROPS=${@:-$P}
WT=/tmp/sv/try-$P-$K
git -C /repo worktree remove --force $WT 2>/dev/null; rm -rf $WT
git -C /repo worktree add -q --detach $WT HEAD || exit 2
(cd $WT && git apply --3way --whitespace=nowarn /tmp/wt/$P/_mut/$K/patch.diff 2>/dev/null || git apply --whitespace=nowarn /tmp/wt/$P/_mut/$K/patch.diff) || echo "PATCH DOES NOT APPLY"
cd /verif
for q in $PROPS; do /venv/bin/python -m sfverif check $q --root $WT --no-evidence 2>&1 | grep -E "^  streamflow|ANALYSIS-ERROR|^C[0-9]+ \[" | cut -c1-330 | head -6; done
git -C /repo worktree remove --force $WT
