#!/venv/bin/python
"""Fast re-evaluation of which checks report each kept seeded change: the patch is applied to an in-memory copy of the
affected modules of /repo (working tree) and every ready rule module is run on it in this process (no self-tests).
Updates meta.json -> verified.detected_by / detection_lines / analysis_errors.  usage: tools/seed_refresh_mem.py [-j N] [ids...]"""
import json, os, subprocess, sys
from concurrent.futures import ProcessPoolExecutor

VERIF = os.path.dirname(os.path.dirname(os.path.abspath(__file__)))
sys.path.insert(0, VERIF)
from sfverif.model import AnalysisError, Program  # noqa: E402
from sfverif.__main__ import load_rules, run_rules_on  # noqa: E402
from sfverif.selftest import _apply_patch  # noqa: E402

_PROG = None
_BASE = {}
READY = json.load(open(os.path.join(VERIF, "ready.json")))


def one(sid):
    global _PROG
    if _PROG is None:
        _PROG = Program("/repo")
    d = sid if os.path.isabs(sid) else os.path.join(VERIF, "seeded", sid)
    vp = _apply_patch(_PROG, os.path.join(d, "patch.diff"))
    if vp is None:
        return sid, None, "patch does not apply", {}
    det, err, lines = [], [], {}
    for prop in READY:
        mod = load_rules(prop)
        if prop not in _BASE:
            b = {}
            for f in run_rules_on(_PROG, prop, mod, "quick", check_floors=False).findings:
                b[(f.rule, f.qualname)] = b.get((f.rule, f.qualname), 0) + 1
            _BASE[prop] = b
        try:
            fs = run_rules_on(vp, prop, mod, "quick", check_floors=False).findings
        except AnalysisError as e:
            err.append(prop)
            lines[prop] = [f"ANALYSIS-ERROR {str(e)[:200]}"]
            continue
        except Exception as e:  # noqa: BLE001
            err.append(prop)
            lines[prop] = [f"CRASH {type(e).__name__}: {str(e)[:160]}"]
            continue
        k = {}
        for f in fs:
            k[(f.rule, f.qualname)] = k.get((f.rule, f.qualname), 0) + 1
        new = [f for f in fs if k[(f.rule, f.qualname)] > _BASE[prop].get((f.rule, f.qualname), 0)]
        if new:
            det.append(prop)
            lines[prop] = [f"{f.file}:{f.line} {f.qualname} [{prop}.{f.rule}] {f.message}"[:300] for f in new[:2]]
    return sid, det, err, lines


def main():
    args = sys.argv[1:]
    j = 12
    if "-j" in args:
        j = int(args[args.index("-j") + 1]); del args[args.index("-j"):args.index("-j") + 2]
    ids = args or sorted(x for x in os.listdir(os.path.join(VERIF, "seeded")) if os.path.exists(os.path.join(VERIF, "seeded", x, "patch.diff")))
    rh = subprocess.check_output(["git", "-C", "/repo", "rev-parse", "--short", "HEAD"], text=True).strip()
    vh = subprocess.check_output(["git", "-C", VERIF, "rev-parse", "--short", "HEAD"], text=True).strip()
    miss = 0
    with ProcessPoolExecutor(j) as ex:
        for sid, det, err, lines in ex.map(one, ids):
            if os.path.isabs(sid):  # candidate directory: report only
                print(sid, "PATCH DOES NOT APPLY" if det is None else ("DETECTED" if det else "missed  "), det or "", ("err " + str({p: lines[p][0][:120] for p in err})) if err and det is not None else "")
                miss += 0 if det else 1
                continue
            mp = os.path.join(VERIF, "seeded", sid, "meta.json")
            m = json.load(open(mp))
            v = m.setdefault("verified", {})
            if det is None:
                print(sid, "PATCH DOES NOT APPLY")
                v["applies_to_head"] = False
            else:
                v.update({"detected_by": det, "detection_lines": {p: lines[p] for p in det}, "analysis_errors": err, "applies_to_head": True,
                          "detection_evaluated_at_repo_head": rh, "detection_evaluated_at_verif_head": vh, "detection_mode": "in-memory, all rule modules"})
                miss += 0 if det else 1
                print(sid, "DETECTED" if det else "missed  ", det, ("err " + str({p: lines[p][0][:90] for p in err})) if err else "")
            json.dump(m, open(mp, "w"), indent=1)
    print(f"{len(ids)} seeds, {miss} not reported by any check")


if __name__ == "__main__":
    main()
