#!/venv/bin/python
"""Print the prompt for a behaviour-preserving-refactoring sub-agent; creates its worktree. usage: benign_prompt.py <id> <files...>"""
import subprocess, sys, os
bid = sys.argv[1]
files = sys.argv[2:]
wt = f"/tmp/wt/{bid}"
prefer = os.environ.get("BEN_FUNCS", "")
extra = os.environ.get("BEN_EXTRA", "")
prefer_txt = (f"""
Prefer these functions/methods (they are the central ones; pick 8 different ones, or two small related ones per refactoring): {prefer}. If one of them was evidently already cleaned up in the way you intended, choose another edit kind.
""" if prefer else "")
if not os.path.isdir(wt):
    subprocess.check_call(["git", "-C", "/repo", "worktree", "add", "-q", "--detach", wt, "HEAD"])
print(f"""You are a maintainer of alpha-unito/streamflow (a Python asyncio workflow management system) doing routine, behaviour-preserving clean-up work. Work ONLY inside the scratch git worktree {wt}. Never touch /repo or /verif and do not read anything under /verif. The interpreter /venv/bin/python has all dependencies. There is no network, no docker, no ssh. Never use `git stash` (shared between worktrees; other people work concurrently): save a change with `git diff > file`, restore with `git checkout -- .`.

Your task: produce 8 DIFFERENT behaviour-preserving refactorings ("benign changes") of code in these files of {wt}:
{chr(10).join('  - ' + f for f in files)}

{prefer_txt}
{extra}
Each refactoring must leave the observable behaviour of the code exactly unchanged for every input, schedule and failure, and should be the kind of edit a careful maintainer really makes: extract a block into a private helper method/function (or inline one); introduce or remove a temporary variable; rename local variables; replace a loop+append by a comprehension or vice versa; early-return / guard-clause restructuring; invert a condition and swap the branches; reorder statements that are independent of each other; replace `if a: if b:` by `if a and b:`; use an equivalent library call (e.g. `posixpath.split` instead of dirname+basename, `dict.get` instead of a membership test, `any(...)` instead of a loop with a flag); change string formatting style (f-string / format / concatenation) without changing the resulting text; add logging/debug statements, comments, type annotations or docstrings; merge or split `try` blocks without changing which exceptions are handled where; replace a lambda by a named function. Touch the *central* functions of these files (the ones that implement scheduling, locking, token routing, persistence, recovery, command construction, stream copying, ... ) rather than peripheral helpers, make each change non-trivial (5-40 changed lines), and make the 8 changes different in kind and spread over different functions. Do NOT change behaviour in any way: no changed order of observable effects (I/O, awaits that yield control while shared state is inconsistent, lock scope, puts on ports, database writes), no changed exception types/messages, no changed defaults, no renamed public functions/methods/parameters.

For each refactoring i = 1..8:
 1. Start from a clean tree (`git -C {wt} checkout -- . && git -C {wt} clean -fdq -e _ben`).
 2. Edit the source. Save `git -C {wt} diff > {wt}/_ben/<i>/patch.diff`.
 3. Check the stable tests still pass with the refactoring applied: `/venv/bin/python /opt/sfhelp/run_stable.py {wt}` must print `stable tests missing: 0` (1-3 minutes; it runs the 171 stable tests file by file with an isolated HOME; do not run the whole suite with a bare pytest command, it is flaky here). To save time you may check two or three refactorings together in one run when they touch different functions, but each saved patch.diff must contain exactly one refactoring relative to the clean tree.
 4. Re-read your diff once more and convince yourself it is behaviour-preserving; write `{wt}/_ben/<i>/meta.json`: {{"id": "{bid}-<i>", "kind": <e.g. "extract helper">, "files": [...], "functions": [...], "why_equivalent": <two sentences>}}.
Finish with the tree clean (`git checkout -- .`), leaving only the `_ben` directory. Do not commit. In your final answer list, per refactoring, the function(s) changed and the kind of edit.""")
