#!/venv/bin/python
"""Regenerate MANIFEST.json from sfverif/rules/*.py (each module's META / docstring)."""
import importlib, json, os, sys

sys.path.insert(0, os.path.dirname(os.path.dirname(os.path.abspath(__file__))))
ROOT = os.path.dirname(os.path.dirname(os.path.abspath(__file__)))
props = [json.loads(l) for l in open(os.path.join(ROOT, "properties.jsonl"))]
NA = json.load(open(os.path.join(ROOT, "not_applicable.json")))
PY = "/venv/bin/python"
READY = set(json.load(open(os.path.join(ROOT, "ready.json"))))
TECH = {
 "C01": "def-use kind tracking (str component -> int) + sibling comparison of the two gather firing branches + CFG paths of scatter/gather",
 "C02": "CFG dominance (add-before-product), def-use of the product operands, union-discrimination taint analysis over Combinator subclasses",
 "C03": "suspension-freedom (no await) of put/replay, whole-program who-may-write of queues/token_list, path enumeration with guard folding for boundary rules",
 "C04": "CFG must-pass-through of terminate() on every exit of every run(), handler tables, loop-exit analysis, finite-domain folding of status reduction",
 "C05": "sibling comparison of the six tag-keyed firing loops (same port mapping read and compared, pop on every path)",
 "C06": "def-use int-discipline of iteration order, CFG placement of the emission test, counter increment-before-use",
 "C07": "def-use origin of every port.put argument (must come from _persist_token), who-may-call add_provenance, CFG dominance save -> add_provenance",
 "C08": "class-table key-set agreement between _save_additional_params and _load along the super() chain, constructor coverage, type dispatch",
 "C09": "SQL-literal tokenisation + getter/updater pairing, whole-program call-site key shape, ownership of cache objects, deep-copy post-processing",
 "C10": "guarded-by (lexical lock scope + caller fixed point), CFG dominance of check-before-reserve across lock release points, finite-domain folding of the occupancy predicate",
 "C11": "who-may-call + finite-domain tabulation (Status x Status) of the release guard, def-use origin of the released amount",
 "C12": "CFG must-pass-through of notify_all() inside the lock scope, waiting-loop structure (re-test after wake-up, busy-loop cycle search)",
 "C13": "def-use order-preservation classifier over every BindingFilter.get_targets, ordered task creation, truth-table folding of MatchingRule.eval",
 "C14": "sibling comparison of Hardware/Storage operators (field-wise operator duality), CFG folding of satisfies() over relation tables, normal-form access whitelist",
 "C15": "CFG dominance order schedule -> mkdir -> register -> put(JobToken), coverage of locations x directories, freshness of random_name",
 "C16": "decorator table (@recoverable on every phase), handler table of the wrapper through the exception hierarchy, CFG dominance chain of _recover",
 "C17": "who-may-write RecoveryRequest.version, CFG tabulation of the retry guard, must-pass-through of _synchronize_workflows, no-normal-exit of DummyFailureManager.recover",
 "C18": "CFG reachability of producer expansion only after an unavailable test, return discipline of is_available, graph-mapper exclusion sets",
 "C19": "lock-order (sorted acquisition), lock scope vs executor.run, suspension-freedom of request creation, finite-domain status set",
 "C20": "mirrored-update pairing over successor/predecessor maps, whole-program encapsulation, pruning guards",
 "C21": "parallel-map pairing (locations/valid_paths), INVALID filter, scoped recursion, CFG dominance of available.wait() before source selection",
 "C22": "P9 shell-fragment quoting analysis over transfer commands, read_only forwarding, availability typestate (set() on all normal paths)",
 "C23": "short-read accounting (def-use of len(result)), byte-budget loop termination, size validation before acceptance, block/record framing",
 "C24": "P9 shell-fragment quoting analysis over every RemoteStreamFlowPath command, operation/flag table, delegation completeness",
 "C25": "P9 quoting of the three renderers, CFG must-pass-through of close() on failure edges after the write, fallback reachability after submission, marker framing",
 "C26": "suspension-freedom between claim test and claim, CFG must-pass-through of Event.set() on normal and failure edges, sibling idiom of FutureConnector methods",
 "C27": "CFG dominance order submit -> register -> clear cache -> poll -> return, sibling caches, who-may-write of the job maps, single unwrap of locations",
 "C28": "resolver choice (propagate vs get), nearest-ancestor overwrite, must-pass-through of the cycle check in the constructor, visited-set loop",
 "C30": "finite-domain folding of the escape guard, def-use of the escaped list into the CommandToken, P9 quoting of environment hand-over",
 "C31": "generated-parser class table for accessor safety, Optional-result dereference, handler exhaustiveness table, scope push/pop pairing",
 "C32": "codec symmetry counting (unquote/quote applications along reaching definitions), recursion coverage of File/Directory fields",
 "C33": "def-use int-discipline of compare_tags, return-shape analysis (antisymmetric by construction), who-constructs job names",
 "C34": "def-use of graph keys (@id of the stored object), pairing of File entities with files_map entries, archive loop over files_map",
}

checks, claimed = [], set()
for p in props:
    pid = p["id"]
    path = os.path.join(ROOT, "sfverif", "rules", pid.lower() + ".py")
    if not os.path.exists(path) or pid not in READY:
        continue
    mod = importlib.import_module(f"sfverif.rules.{pid.lower()}")
    meta = getattr(mod, "META", {})
    claimed.add(pid)
    rules = ", ".join(r for r, _ in mod.RULES)
    checks.append(
        {
            "property_id": pid,
            "quick_cmd": f"{PY} -m sfverif check {pid} --tier quick",
            "thorough_cmd": f"{PY} -m sfverif check {pid} --tier thorough",
            "evidence_file": f"/verif/evidence/{pid}.json",
            "replay_cmd_template": f"{PY} -m sfverif replay {{path}}",
            "engine": "sfverif",
            "level_claimed": {
                "category": "other",
                "text": (
                    "Static analysis of /repo's current source (ast, statement-level CFG with exception edges, def-use, "
                    "class table / call resolution): decides the structural clauses " + rules + " of this property, each a "
                    "necessary condition of the behaviour, for every execution at once; it does not prove the behavioural "
                    "statement. Clauses: " + " ".join((mod.__doc__ or "").split())[:1800]
                ),
                "design_ref": f"DESIGN.md section 3, {pid}",
            },
            "level_note": "Undecided: " + meta.get("undecided", "the behavioural statement itself") + ". Trusted: Python ast, sfverif CFG/def-use/resolver (engine self-check + per-rule breaking/benign source variants), library semantics (asyncio single-threaded, shlex.quote, cachebox, SQLite). Plugin classes outside /repo are not analysed.",
            "technique": "static analysis (no execution, no solver): " + TECH.get(pid, "repository-specific AST/CFG/def-use rules (" + rules + ")"),
        }
    )
na = [x for x in NA if x["property_id"] not in claimed]
for p in props:
    if p["id"] not in claimed and not any(x["property_id"] == p["id"] for x in na):
        na.append({"property_id": p["id"], "reason": "check not built yet in this round (planned in DESIGN.md); not claimed"})
man = {
    "version": 1,
    "setup_cmd": f"{PY} -m sfverif selfcheck",
    "hooks": {
        "guard": "STREAMFLOW_VERIF",
        "enable": "no hooks: the checks read source only; nothing in /repo is guarded or instrumented",
        "baseline_off_cmd": "cd /repo && /venv/bin/python -m pytest -ra -q -p no:cacheprovider --timeout=900 --continue-on-collection-errors",
        "source_commits": [],
        "add_only": True,
    },
    "engines": [
        {
            "name": "sfverif",
            "path": "/verif/sfverif",
            "serves_properties": sorted(claimed),
            "kind_free_text": "custom static analyser (Python ast + hand-built CFG with exception edges, def-use, class table/C3 MRO, callee resolution, shell-fragment classifier); per-property rule modules with in-memory source-variant self-tests",
        }
    ],
    "checks": checks,
    "not_applicable": sorted(na, key=lambda x: x["property_id"]),
    "notes": "Exit codes: 0 held (KNOWN-FINDING lines possible), 1 VIOLATION, 2 ANALYSIS-ERROR (vanished anchor, floor, self-test). known_findings.json lists recorded/fixed genuine defects. See DESIGN.md.",
}
json.dump(man, open(os.path.join(ROOT, "MANIFEST.json"), "w"), indent=1)
print(f"MANIFEST.json: {len(checks)} checks, {len(na)} not applicable")
