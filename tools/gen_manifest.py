#!/venv/bin/python
"""Regenerate MANIFEST.json from sfverif/rules/*.py (each module's META / docstring)."""
import importlib, json, os, sys

sys.path.insert(0, os.path.dirname(os.path.dirname(os.path.abspath(__file__))))
ROOT = os.path.dirname(os.path.dirname(os.path.abspath(__file__)))
props = [json.loads(l) for l in open(os.path.join(ROOT, "properties.jsonl"))]
NA = json.load(open(os.path.join(ROOT, "not_applicable.json")))
PY = "/venv/bin/python"
READY = set(json.load(open(os.path.join(ROOT, "ready.json"))))
checks, claimed = [], set()
for p in props:
    pid = p["id"]
    path = os.path.join(ROOT, "sfverif", "rules", pid.lower() + ".py")
    if not os.path.exists(path) or pid not in READY:
        continue
    mod = importlib.import_module(f"sfverif.rules.{pid.lower()}")
    meta = getattr(mod, "META", {})
    claimed.add(pid)
    rules = ", ".join(r for r, _ in mod.RULES)
    checks.append(
        {
            "property_id": pid,
            "quick_cmd": f"{PY} -m sfverif check {pid} --tier quick",
            "thorough_cmd": f"{PY} -m sfverif check {pid} --tier thorough",
            "evidence_file": f"/verif/evidence/{pid}.json",
            "replay_cmd_template": f"{PY} -m sfverif replay {{path}}",
            "engine": "sfverif",
            "level_claimed": {
                "category": "other",
                "text": (
                    "Static analysis of /repo's current source (ast, statement-level CFG with exception edges, def-use, "
                    "class table / call resolution): decides the structural clauses " + rules + " of this property, each a "
                    "necessary condition of the behaviour, for every execution at once; it does not prove the behavioural "
                    "statement. " + (mod.__doc__ or "").strip().split("\n\n")[0].replace("\n", " ")
                ),
                "design_ref": f"DESIGN.md section 3, {pid}",
            },
            "level_note": "Undecided: " + meta.get("undecided", "the behavioural statement itself") + ". Trusted: Python ast, sfverif CFG/def-use/resolver (engine self-check + per-rule breaking/benign source variants), library semantics (asyncio single-threaded, shlex.quote, cachebox, SQLite). Plugin classes outside /repo are not analysed.",
            "technique": meta.get("technique", "static analysis: repository-specific AST/CFG/def-use rules (" + rules + ")"),
        }
    )
na = [x for x in NA if x["property_id"] not in claimed]
for p in props:
    if p["id"] not in claimed and not any(x["property_id"] == p["id"] for x in na):
        na.append({"property_id": p["id"], "reason": "check not built yet in this round (planned in DESIGN.md); not claimed"})
man = {
    "version": 1,
    "setup_cmd": f"{PY} -m sfverif selfcheck",
    "hooks": {
        "guard": "STREAMFLOW_VERIF",
        "enable": "no hooks: the checks read source only; nothing in /repo is guarded or instrumented",
        "baseline_off_cmd": "cd /repo && /venv/bin/python -m pytest -ra -q -p no:cacheprovider --timeout=900 --continue-on-collection-errors",
        "source_commits": [],
        "add_only": True,
    },
    "engines": [
        {
            "name": "sfverif",
            "path": "/verif/sfverif",
            "serves_properties": sorted(claimed),
            "kind_free_text": "custom static analyser (Python ast + hand-built CFG with exception edges, def-use, class table/C3 MRO, callee resolution, shell-fragment classifier); per-property rule modules with in-memory source-variant self-tests",
        }
    ],
    "checks": checks,
    "not_applicable": sorted(na, key=lambda x: x["property_id"]),
    "notes": "Exit codes: 0 held (KNOWN-FINDING lines possible), 1 VIOLATION, 2 ANALYSIS-ERROR (vanished anchor, floor, self-test). known_findings.json lists recorded/fixed genuine defects. See DESIGN.md.",
}
json.dump(man, open(os.path.join(ROOT, "MANIFEST.json"), "w"), indent=1)
print(f"MANIFEST.json: {len(checks)} checks, {len(na)} not applicable")
