#!/venv/bin/python
"""Print the prompt for an independent mutation sub-agent for property <id>; creates its worktree."""
import json, subprocess, sys, os
pid = sys.argv[1]
k = sys.argv[2] if len(sys.argv) > 2 else "3"
prop = [json.loads(l) for l in open("/verif/properties.jsonl") if json.loads(l)["id"] == pid][0]
base = os.environ.get("MUT_BASE", "/tmp/wt")
wt = f"{base}/{pid}"
if not os.path.isdir(wt):
    subprocess.check_call(["git", "-C", "/repo", "worktree", "add", "-q", "--detach", wt, "HEAD"])
print(f"""You are testing how well a semantic property of a Python code base is protected. Work ONLY inside the scratch git worktree {wt} (a checkout of alpha-unito/streamflow, a Python asyncio workflow management system that translates CWL into a token-based dataflow graph, schedules jobs on container/HPC/cloud locations and recovers failures). Never touch /repo or /verif, and do not read anything under /verif. The interpreter /venv/bin/python has all dependencies; when run with the worktree as current directory it imports the worktree's `streamflow` package. There is no network, no docker, no ssh.

The property (it is supposed to hold for every input / schedule / history named in its quantifier):

{json.dumps(prop, indent=1)}

Your task: produce {k} DIFFERENT, independent, realistic source changes ("mutations") to files under {wt}/streamflow that each BREAK this property while the code still imports/compiles and the existing stable test suite still passes. Each should look like a plausible refactoring slip, an optimisation, an off-by-one, a dropped/mis-ordered statement, a wrong condition, or two cooperating edits that each look fine alone. Prefer changes that need something specific to manifest (a particular interleaving, a crash or fault at a particular point, a multi-step sequence of operations, an unusual input such as 10+ elements / names with spaces / nested structures, or two cooperating sites) rather than ones any ordinary run exposes at once. Keep each change small (1-15 changed lines). Make the {k} changes different in kind and, where possible, in different functions. {os.environ.get('MUT_HINT', '')}

For each mutation i = 1..{k}:
 1. Start from a clean tree (`git -C {wt} checkout -- . && git -C {wt} clean -fdq -e _mut`).
 2. Edit the source. Save `git -C {wt} diff > {wt}/_mut/<i>/patch.diff`.
 3. Write a demonstration `{wt}/_mut/<i>/demo.py`: a standalone script (run as `cd {wt} && /venv/bin/python _mut/<i>/demo.py`) that exercises the real code (no docker/ssh/network; use the local connector, fakes/mocks for connectors, in-memory sqlite, asyncio, tmp dirs) and exits 0 when the property holds and exits 1 (printing what went wrong) when it is violated. It MUST exit 0 on the clean tree and exit 1 with your mutation applied. Verify both yourself.
 4. Verify the stable tests still pass WITH the mutation applied: `/venv/bin/python /opt/sfhelp/run_stable.py {wt}` (takes 1-3 minutes; it runs the 171 stable tests file by file with an isolated HOME because the plain pytest command is flaky and sometimes hangs on this shared machine; do not run the whole suite with a bare pytest command). It prints the stable tests that did not pass and exits 0 when all 171 pass. If a stable test fails because of your mutation, choose another mutation. (Run it once on the clean tree first if you want a reference; a test reported missing on the clean tree too is load-related flakiness: re-run.)
 5. Write `{wt}/_mut/<i>/meta.json`: {{"property": "{pid}", "title": <short name>, "files": [...], "what_breaks": <one paragraph>, "needs_to_manifest": <the specific input/interleaving/fault/sequence>, "demo_clean_exit": 0, "demo_mutated_exit": 1, "tests": <the tail of the pytest output with the mutation>}}.
IMPORTANT: never use `git stash` (the stash is shared by all worktrees of this repository and other testers work concurrently): save your change with `git diff > file`, restore with `git checkout -- .`, re-apply with `git apply file`. Finish with the tree clean again (`git checkout -- .`), leaving only the `_mut` directory. Do not commit anything. In your final answer list, per mutation, the file/function changed, a one-line description, and the verified exit codes. If you cannot find {k}, deliver as many as you verified.""")
