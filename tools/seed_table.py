#!/venv/bin/python
"""Markdown table of the seeded changes kept under /verif/seeded: property, what, needs, detected by."""
import json, os
root = os.path.join(os.path.dirname(os.path.dirname(os.path.abspath(__file__))), "seeded")
rows = []
for sid in sorted(os.listdir(root), key=lambda s: (s.split("-")[0], int(s.split("-")[1]))):
    mp = os.path.join(root, sid, "meta.json")
    if not os.path.exists(mp):
        continue
    m = json.load(open(mp))
    v = m.get("verified", {})
    title = (m.get("title") or m.get("what_breaks") or "")[:110].replace("|", "/").replace("\n", " ")
    files = ", ".join(os.path.basename(f) for f in m.get("files", []))[:60]
    det = ", ".join(v.get("detected_by", [])) or "— (not detected)"
    rows.append(f"| {sid} | {files} | {title} | {det} |")
print("| seed | file(s) | change | reported by (quick tier) |")
print("|---|---|---|---|")
print("\n".join(rows))
n = len(rows)
d = sum(1 for r in rows if "not detected" not in r)
print(f"\n{d} of {n} kept seeded changes are reported by at least one check.")
