"""S16 (C26): a deployment must not be undeployed while something deployed on top of it is still live.
Chain top -> mid -> base (each wraps the next). undeploy_all starts undeploy(mid) while top is live: mid is kept
(it still has a dependant) but it is nevertheless removed from base's dependants, so base is undeployed under
the live mid/top.
Run: cd /repo && /venv/bin/python /verif/findings/S16_undeploy_all_chain.py ; exit 1 = base undeployed before its users."""
import asyncio, sys

from streamflow.core.deployment import DeploymentConfig, WrapsConfig
from streamflow.deployment import manager as mgr
from streamflow.deployment.connector import connector_classes
from streamflow.deployment.connector.local import LocalConnector
from streamflow.deployment.wrapper import ConnectorWrapper

ORDER = []


class Base(LocalConnector):
    async def undeploy(self, external):
        await asyncio.sleep(0.01)
        ORDER.append(self.deployment_name)


class Wrap(ConnectorWrapper):
    def __init__(self, deployment_name, config_dir, connector, service=None, **kw):
        super().__init__(deployment_name, config_dir, connector, service, 2**16)

    async def deploy(self, external): ...
    async def undeploy(self, external):
        await asyncio.sleep(0.01)
        ORDER.append(self.deployment_name)

    @classmethod
    def get_schema(cls):
        return ""


connector_classes["base0"] = Base
connector_classes["wrap0"] = Wrap


class Ctx:
    config = {"path": "/tmp/x.yml", "deployments": {
        "base": {"type": "base0", "config": {}, "lazy": False, "scheduling_policy": None},
        "mid": {"type": "wrap0", "config": {}, "lazy": False, "scheduling_policy": None, "wraps": "base"},
    }}


async def main():
    m = mgr.DefaultDeploymentManager(Ctx())
    await m.deploy(DeploymentConfig(name="top", type="wrap0", config={}, wraps=WrapsConfig(deployment="mid"), lazy=False))
    print("deployed:", sorted(m.deployments_map))
    await m.undeploy_all()
    print("undeploy order:", ORDER)
    pos = {n: i for i, n in enumerate(ORDER)}
    bad = [(a, b) for a, b in (("top", "mid"), ("mid", "base"), ("top", "base")) if a in pos and b in pos and pos[b] < pos[a]]
    print("undeployed before a deployment that still used it:", bad)
    return 1 if bad or len(ORDER) != 3 else 0

sys.exit(asyncio.run(main()))
