"""S17 (C24): RemoteStreamFlowPath.walk() over a tree with sub-directories must visit the same (dir, dirnames,
filenames) triples as os.walk on the local filesystem.  `_make_child_relpath(part)` ignores `part` and returns the
path itself, so walk() re-visits the same directory for ever (or yields wrong directories).
Run: cd /repo && /venv/bin/python /verif/findings/S17_remote_walk_subdirs.py ; exit 1 = walk differs / does not end."""
import asyncio, os, sys, tempfile
from types import SimpleNamespace

from streamflow.core.deployment import ExecutionLocation
from streamflow.data.remotepath import StreamFlowPath
from streamflow.deployment.connector.base import BaseConnector


class Sh(BaseConnector):
    def __init__(self):
        super().__init__(deployment_name="fake-remote", config_dir="/tmp", transferBufferSize=2**16)
    async def deploy(self, external): ...
    async def get_available_locations(self, service=None):
        return {}
    @classmethod
    def get_schema(cls):
        return ""


async def main():
    c = Sh()
    ctx = SimpleNamespace(deployment_manager=SimpleNamespace(get_connector=lambda n: c),
                          data_manager=SimpleNamespace(get_data_locations=lambda *a, **k: []))
    loc = ExecutionLocation(name="r0", deployment="fake-remote", local=False)
    root = os.path.realpath(tempfile.mkdtemp(prefix="s17-"))
    os.makedirs(os.path.join(root, "a", "b"))
    os.makedirs(os.path.join(root, "c"))
    for f in ("top.txt", "a/x.txt", "a/b/y.txt"):
        open(os.path.join(root, f), "w").write("1")
    expected = sorted((d, sorted(dn), sorted(fn)) for d, dn, fn in os.walk(root))
    got = []

    async def run():
        async for d, dn, fn in StreamFlowPath(root, context=ctx, location=loc).walk():
            got.append((str(d), sorted(dn), sorted(fn)))
            if len(got) > 50:
                raise RuntimeError("walk does not terminate (more than 50 directories for a tree of 4)")

    try:
        await asyncio.wait_for(run(), 30)
        err = None
    except Exception as e:  # noqa
        err = f"{type(e).__name__}: {e}"
    await c.undeploy(False)
    print("expected:", expected)
    print("got     :", sorted(got)[:6], "..." if len(got) > 6 else "", "| error:", err)
    return 0 if err is None and sorted(got) == expected else 1

sys.exit(asyncio.run(main()))
