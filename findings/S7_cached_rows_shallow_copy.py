"""S7 (C08/C09): rows handed out by the cached getters of SqliteDatabase must be independent copies.
cachebox's default post-processing copies only the top level of the row, so the JSON-decoded `params`
container is shared by every caller and with the cache: a loader that mutates it changes what later
reads (and other loaded objects) see, without any write to the database.
Run: cd /repo && /venv/bin/python /verif/findings/S7_cached_rows_shallow_copy.py ; exit 1 = aliasing observed."""
import asyncio, sys

from streamflow.core.workflow import Step, Workflow
from streamflow.persistence.sqlite import SqliteDatabase


class Ctx:
    config = {"path": "/tmp/streamflow.yml"}


async def main():
    db = SqliteDatabase(Ctx(), ":memory:")
    wid = await db.add_workflow("w", {"config": {}}, 0, Workflow)
    sid = await db.add_step("/s", wid, 0, Step, {"items": ["a", "b"], "nested": {"k": [1]}})
    r1 = await db.get_step(sid)
    r2 = await db.get_step(sid)
    shared = r1["params"] is r2["params"]
    r1["params"]["items"].append("MUTATED")
    r3 = await db.get_step(sid)
    await db.close()
    print("two reads share the params container:", shared)
    print("read after a caller mutated its copy:", r3["params"]["items"])
    return 1 if shared or "MUTATED" in r3["params"]["items"] else 0

sys.exit(asyncio.run(main()))
