"""S3a (C25.R3): a command that times out in the persistent shell is executed again by the
direct-execution fallback of Connector.run (the first run may still be in progress or have had effects).

Run: cd /repo && /venv/bin/python /verif/findings/S3a_shell_timeout_reexecution.py
exit 1 = the command's side effect happened more than once for one run() call."""
import asyncio, os, sys, tempfile

from streamflow.core.deployment import ExecutionLocation
from streamflow.deployment.connector.base import BaseConnector


class ShConnector(BaseConnector):
    async def deploy(self, external: bool) -> None: ...
    async def get_available_locations(self, service=None):
        return {}
    @classmethod
    def get_schema(cls) -> str:
        return ""


async def main() -> int:
    loc = ExecutionLocation(name="n", deployment="sh", local=False)
    c = ShConnector("sh", "/tmp", 2**16)
    with tempfile.TemporaryDirectory() as tmp:
        counter = os.path.join(tmp, "runs")
        try:
            res = await c.run(location=loc, command=["sh", "-c", f"'echo run >> {counter}; sleep 1; echo done'"], capture_output=True, timeout=0.4)
            print("run() returned", res)
        except Exception as e:  # the direct execution times out too
            print("run() raised", type(e).__name__, e)
        await asyncio.sleep(1.5)
        n = len(open(counter).read().split())
        print(f"the command started {n} time(s) for a single run() call")
        await c.undeploy(False)
        return 0 if n == 1 else 1

sys.exit(asyncio.run(main()))
