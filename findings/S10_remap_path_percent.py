"""S10 (C32): remap_path URL-decodes on the way in and never re-encodes, also for plain file-system paths.

Run: cd /repo && /venv/bin/python /verif/findings/S10_remap_path_percent.py
exit 1 = a value does not survive  old -> new -> old  (defect present).
Rule instances: C32.R1 remap_path:plain:codec (cases 1, 4) and remap_path:url:codec (cases 2, 3)."""
import copy
import posixpath
import sys

from streamflow.cwl.utils import remap_path, remap_token_value

bad = 0
for name, value in [
    ("1 plain path with a percent sequence", "/old/a%20b.txt"),
    ("2 file location with an encoded blank", "file:///old/a%20b.txt"),
    ("3 file location with an encoded percent", "file:///old/d/x%2541.txt"),
    ("c plain name (control)", "/old/plain name.txt"),
]:
    there = remap_path(posixpath, value, "/old", "/new")
    back = remap_path(posixpath, there, "/new", "/old")
    ok = back == value
    bad += 0 if ok else 1
    print(("ok   " if ok else "LOST ") + f"{name:42s} {value!r} -> {there!r} -> {back!r}")

token = {
    "class": "Directory",
    "path": "/old/d%41",
    "location": "file:///old/d%2541",
    "listing": [{"class": "File", "path": "/old/d%41/f%20.txt", "location": "file:///old/d%2541/f%2520.txt"}],
}
there = remap_token_value(posixpath, "/old", "/new", copy.deepcopy(token))
back = remap_token_value(posixpath, "/new", "/old", copy.deepcopy(there))
ok = back == token
bad += 0 if ok else 1
print(("ok   " if ok else "LOST ") + "4 Directory with a listing, round trip")
print("     original:", token)
print("     restored:", back)
sys.exit(1 if bad else 0)
