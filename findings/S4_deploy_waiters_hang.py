import asyncio, sys
from streamflow.core.deployment import DeploymentConfig, WrapsConfig
from streamflow.deployment.manager import DefaultDeploymentManager
from streamflow.core.exception import WorkflowDefinitionException

class Ctx:  # minimal context
    config = {"path": "/tmp/x.yml", "deployments": {}}

async def main():
    m = DefaultDeploymentManager(Ctx())
    cfg = lambda: DeploymentConfig(name="w", type="docker", config={"image": "x"}, wraps=WrapsConfig(deployment="missing"), lazy=False)
    async def req():
        try:
            await m.deploy(cfg())
            return "ok"
        except Exception as e:
            return type(e).__name__
    ts = [asyncio.create_task(req()) for _ in range(3)]
    done, pending = await asyncio.wait(ts, timeout=3)
    print("done", sorted(t.result() for t in done), "hung", len(pending))
    for t in pending: t.cancel()
    sys.exit(1 if pending else 0)
asyncio.run(main())
