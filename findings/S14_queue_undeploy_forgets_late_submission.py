"""S14 (C27.R3): QueueManagerConnector.undeploy snapshots the ids of `_scheduled_jobs`, AWAITS the
cancellation, and then replaces the whole map with `{}`.  A job whose submission completes while that
await is pending is registered in the old map and wiped by the reset: it is still in the queue, it is
never cancelled, and its own run() then fails with KeyError on `_scheduled_jobs.pop(job_id)`.

Run:  cd /repo && /venv/bin/python /verif/findings/S14_queue_undeploy_forgets_late_submission.py
Exit 1 = defect reproduced, 0 = undeploy cancelled exactly the queued jobs.

No docker/ssh: the real SlurmConnector is wrapped around a fake inner connector that interprets
sbatch / squeue / scancel / scontrol in memory (with a little latency on sbatch and scancel).
The inner location itself wraps a base location (two-level stacking), so that undeploy's double
get_inner_location (finding S13) does not raise and the reset race can be observed on its own.

Schedule:  t=0.00 job-1 submitted (sbatch takes 0.05s), then polls
           t=0.10 job-2 submission starts (sbatch takes 0.15s -> returns at t=0.25)
           t=0.20 undeploy starts: snapshot {1}, `scancel 1` takes 0.10s (-> t=0.30)
           t=0.25 job-2's sbatch returns, id 2 is registered in _scheduled_jobs
           t=0.30 undeploy resumes: `self._scheduled_jobs = {}`  -> id 2 forgotten, never cancelled
"""
import asyncio
import sys

from streamflow.core.deployment import Connector, ExecutionLocation
from streamflow.deployment.connector.queue_manager import SlurmConnector


class FakeCluster(Connector):
    """In-memory queue manager behind the wrapped connector."""

    def __init__(self):
        super().__init__(deployment_name="inner", config_dir="/tmp", transferBufferSize=1024)
        self.next_id = 1
        self.queue: dict[str, str] = {}  # id -> state
        self.cancelled: list[str] = []
        self.sbatch_latency = [0.05, 0.15]

    async def run(self, location, command, environment=None, workdir=None, stdin=None, stdout=None, stderr=None,
                  capture_output=False, timeout=None, job_name=None):
        words = [str(w) for w in command]
        if "sbatch" in words:
            await asyncio.sleep(self.sbatch_latency.pop(0))
            jid = str(self.next_id)
            self.next_id += 1
            self.queue[jid] = "RUNNING"
            return jid + "\n", 0
        if words[0] == "squeue":
            await asyncio.sleep(0.01)
            asked = words[words.index("-j") + 1].split(",")
            return "\n".join(j for j in asked if self.queue.get(j) == "RUNNING") + "\n", 0
        if words[0] == "scancel":
            await asyncio.sleep(0.10)
            for j in " ".join(words[1:]).split():
                self.cancelled.append(j)
                self.queue[j] = "CANCELLED"
            return "", 0
        if words[0] == "scontrol":
            return ("0\n" if "ExitCode" in words[-1] else "\n"), 0
        return "", 0

    # unused abstract API
    async def copy_local_to_remote(self, *a, **k): ...
    async def copy_remote_to_local(self, *a, **k): ...
    async def copy_remote_to_remote(self, *a, **k): ...
    async def deploy(self, external): ...
    async def undeploy(self, external): ...
    async def get_available_locations(self, service=None): return {}
    async def get_stream_reader(self, *a, **k): ...
    async def get_stream_writer(self, *a, **k): ...
    async def get_shell(self, *a, **k): ...
    @classmethod
    def get_schema(cls): return ""


async def main() -> int:
    cluster = FakeCluster()
    slurm = SlurmConnector(deployment_name="slurm", config_dir="/tmp", connector=cluster, service=None,
                           maxConcurrentJobs=4, pollingInterval=0.02)
    base = ExecutionLocation(name="node", deployment="base", hostname="h")
    inner = ExecutionLocation(name="login", deployment="inner", hostname="h", wraps=base)
    loc = ExecutionLocation(name="login/slurmctld", deployment="slurm", hostname="h", wraps=inner)

    async def submit(name):
        try:
            return await slurm.run(location=loc, command=["sleep", "100"], job_name=name)
        except BaseException as e:  # noqa: BLE001 - report whatever run() does
            return f"{type(e).__name__}: {e}"

    j1 = asyncio.create_task(submit("job-1"))
    await asyncio.sleep(0.10)
    j2 = asyncio.create_task(submit("job-2"))
    await asyncio.sleep(0.10)
    await slurm.undeploy(external=False)
    still_queued = sorted(j for j, s in cluster.queue.items() if s == "RUNNING")
    print(f"submitted ids      : {sorted(cluster.queue)}")
    print(f"cancelled by undeploy: {cluster.cancelled}")
    print(f"still in the queue after undeploy: {still_queued}")
    print(f"_scheduled_jobs after undeploy   : {dict(slurm._scheduled_jobs)}")
    done, pending = await asyncio.wait([j1, j2], timeout=1.0)
    for name, t in (("job-1", j1), ("job-2", j2)):
        print(f"run({name}) -> {t.result() if t.done() else 'still waiting'}")
    for t in pending:
        t.cancel()
    if still_queued:
        print("DEFECT: a job that was in the queue when undeploy finished was neither cancelled nor remembered")
        return 1
    return 0


sys.exit(asyncio.run(main()))
