"""S1 (C13.R1): MatchingBindingFilter.get_targets collects the surviving targets in a `set`, so the
declared target order is lost before DefaultScheduler.schedule creates its per-target tasks.

Run:  cd /repo && /venv/bin/python /verif/findings/S1_matching_filter_order.py
Exit 1 = defect reproduced (returned order differs from the declared order), 0 = order kept.

Input: 4 declared targets d0..d3 (all on matching deployments), one rule per deployment, every rule's
predicate equal to the job's input value -> all 4 survive; the filter must return [d0, d1, d2, d3].
Targets hash by identity, so the iteration order of the set depends on object addresses: each trial
builds fresh objects (with some garbage in between to move the allocator).
"""
import asyncio
import sys

from streamflow.core.deployment import DeploymentConfig, Target
from streamflow.core.workflow import Job, Token
from streamflow.deployment.filter.matching import MatchingBindingFilter


async def trial(i: int) -> tuple[list[str], list[str]]:
    junk = [object() for _ in range(i * 7)]  # perturb addresses between trials
    names = [f"d{k}" for k in range(4)]
    targets = [Target(deployment=DeploymentConfig(name=n, type="docker", config={"image": "x"})) for n in names]
    del junk
    flt = MatchingBindingFilter(
        name="m",
        filters=[{"target": n, "job": [{"port": "p", "match": "go"}]} for n in names],
    )
    job = Job(name="/step/0", workflow_id=0, inputs={"p": Token(value="go")}, input_directory=None, output_directory=None, tmp_directory=None)
    out = await flt.get_targets(job, list(targets))
    return names, [t.deployment.name for t in out]


async def main() -> int:
    wrong = 0
    trials = 20
    example = None
    for i in range(trials):
        declared, got = await trial(i)
        assert sorted(got) == sorted(declared), "the filter must keep all four matching targets"
        if got != declared:
            wrong += 1
            example = example or (declared, got)
    print(f"declared order kept in {trials - wrong} of {trials} trials")
    if example:
        print(f"example: declared {example[0]} -> returned {example[1]}")
        print("DefaultScheduler.schedule starts _process_target tasks in the returned order, so with free capacity on")
        print("several targets the job is not placed on the first declared one.")
    return 1 if wrong else 0


sys.exit(asyncio.run(main()))
