"""S12 (C21.R6): invalidating one path also invalidates a *related* path on the same location.

Run:  cd /repo && /venv/bin/python /verif/findings/S12_collateral_invalidation.py
Exit 1 = defect reproduced, 0 = behaves as the property states.

History (one location L):  register /data/c ; register /data/d ; relate c <-> d (what transfer_data does for a
read-only copy) ; invalidate /data/d.   Expected: /data/c is still available.  Observed: /data/c is gone.
Control (two locations L1, L2, same history across them): /data/c on L1 stays available.
"""
import sys
from types import SimpleNamespace

from streamflow.core.deployment import ExecutionLocation
from streamflow.data.manager import DefaultDataManager


def manager():
    ctx = SimpleNamespace(checkpoint_manager=SimpleNamespace(register=lambda loc: None))
    return DefaultDataManager(ctx)


def avail(dm, path, loc):
    return [d.path for d in dm.get_data_locations(path, deployment=loc.deployment, location_name=loc.name)]


def same_location():
    dm = manager()
    loc = ExecutionLocation(name="n", deployment="dep", local=True)
    c = dm.register_path(loc, "/data/c")
    d = dm.register_path(loc, "/data/d")
    dm.register_relation(c, d)
    before = avail(dm, "/data/c", loc)
    dm.invalidate_location(loc, "/data/d")
    after = avail(dm, "/data/c", loc)
    print("same location : /data/c before", before, "-> after invalidating /data/d", after)
    return "/data/c" in after


def two_locations():
    dm = manager()
    l1 = ExecutionLocation(name="n1", deployment="dep", local=True)
    l2 = ExecutionLocation(name="n2", deployment="dep", local=True)
    c = dm.register_path(l1, "/data/c")
    d = dm.register_path(l2, "/data/d")
    dm.register_relation(c, d)
    dm.invalidate_location(l2, "/data/d")
    after = avail(dm, "/data/c", l1)
    print("two locations : /data/c on n1 after invalidating /data/d on n2", after)
    return "/data/c" in after


ok_control = two_locations()
ok_same = same_location()
if ok_control and not ok_same:
    print("DEFECT: /data/c was never invalidated but is no longer reported on the location")
    sys.exit(1)
print("no defect observed")
sys.exit(0)
