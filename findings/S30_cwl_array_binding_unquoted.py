"""S30 (C30; new, numbered after the property to avoid clashes): items of an array input whose *outer* inputBinding has no shellQuote (the common
`type: string[]` + `inputBinding: {prefix: -x}` form) reach the shell unquoted.

The translator builds  CWLCommandTokenProcessor(is_shell_command=True, shell_quote=False,
processor=CWLMapCommandTokenProcessor(processor=CWLForwardCommandTokenProcessor))  for such an input
("By default, do not escape composite command tokens") and CWLForwardCommandTokenProcessor.bind puts the raw
token value into the CommandToken, so nobody escapes the words.  CWLCommand.execute then hands the word list
to connector.run, create_command joins it with blanks and `sh -c` parses it.

Run: cd /repo && /venv/bin/python /verif/findings/S30_cwl_array_binding_unquoted.py
exit 1 = the tool process does not receive the input values as its arguments (defect present).
Nothing but the local `sh` and `python` is used (no docker / ssh / network)."""
import json
import os
import subprocess
import sys
import tempfile

import cwl_utils.parser.cwl_v1_2 as cwl

from streamflow.core.utils import create_command
from streamflow.core.workflow import Token
from streamflow.cwl.command import CWLCommand
from streamflow.cwl.translator import _get_command_token_processor_from_input
from streamflow.workflow.token import ListToken

tmp = tempfile.mkdtemp()
marker = os.path.join(tmp, "INJECTED")
values = ["a b", "x;touch " + marker, "$HOME"]  # add "it's" and the line is not even valid shell

# inputs: xs: {type: string[], inputBinding: {prefix: -x}}
arr = cwl.CommandInputArraySchema(items="string", type_="array")
inp = cwl.CommandInputParameter(id="xs", type_=arr, inputBinding=cwl.CommandLineBinding(prefix="-x"))
processor = _get_command_token_processor_from_input(inp, inp.type_, "xs", is_shell_command=False)

command = CWLCommand.__new__(CWLCommand)  # only the fields read by _get_executable_command
command.processors = [processor]
command.base_command = [sys.executable, "-c", "import sys, json; print(json.dumps(sys.argv[1:]))"]
command.expression_lib = []
command.full_js = False
command.is_shell_command = False
words = command._get_executable_command(
    {"inputs": {"xs": values}, "self": None, "runtime": {}},
    {"xs": ListToken(value=[Token(value=v) for v in values])},
)
line = create_command("LocalConnector", words, environment={}, workdir=tmp)
out = subprocess.run(["sh", "-c", line], capture_output=True, text=True)
print("processor chain :", type(processor).__name__, "->", type(processor.processor).__name__, "->", type(processor.processor.processor).__name__)
print("outer escaping  : is_shell_command=%s shell_quote=%s" % (processor.is_shell_command, processor.shell_quote))
print("command words   :", words[1:])
print("shell line      :", line)
try:
    got = json.loads(out.stdout)
except ValueError:
    got = out.stdout
expected = ["-x", *values]
print("argv expected   :", expected)
print("argv received   :", got, "| stderr:", out.stderr.strip()[:120])
injected = os.path.exists(marker)
print("injected command ran:", injected)
for f in os.listdir(tmp):
    os.remove(os.path.join(tmp, f))
os.rmdir(tmp)
sys.exit(0 if got == expected and not injected else 1)
