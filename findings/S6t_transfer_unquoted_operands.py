"""S6 family (C22.R1): path operands of the transfer helpers reach the shell unquoted.

Run:  cd /repo && /venv/bin/python /verif/findings/S6t_transfer_unquoted_operands.py
Exit 1 = defect reproduced, 0 = transfers behave as the property states.

A minimal shell-based connector (BaseConnector with its own run / tar stream code, executed on this machine:
no docker, ssh or network) copies files whose names contain a blank, a double quote or a `$`:

 A  copy_same_connector   `/bin/cp -rf <src> <dst>`           src "my file.txt"   -> nothing is copied, no error
 B  get_local_to_remote_destination  `test -d "<dst>"`        dst dir `q"uote`    -> the unbalanced quote leaves the
                                                                                     persistent shell waiting: the transfer hangs
 C  get_local_to_remote_destination  `test -d "<dst>"`        dst dir `d$x`       -> `$x` expands: existing directory
                                                                                     not recognised, file written *over* the name
 D  BaseConnector.copy_remote_to_local  `tar chf - -C <dir> <name>`  src "my file.txt" -> tar gets two names, nothing arrives
"""
import asyncio
import os
import sys
import tempfile

from streamflow.core.deployment import ExecutionLocation
from streamflow.deployment.connector.base import BaseConnector


class ShConnector(BaseConnector):
    async def deploy(self, external: bool) -> None:
        pass

    async def get_available_locations(self, service=None):
        return {}

    @classmethod
    def get_schema(cls) -> str:
        return ""


def connector():
    return ShConnector("sh", "/tmp", 2**16)


async def main() -> int:
    loc = ExecutionLocation(name="n", deployment="sh", local=False)
    bad = 0
    with tempfile.TemporaryDirectory() as tmp:
        # control: the same three routes with plain names work -------------------------------------
        p0 = os.path.join(tmp, "plain0.txt")
        open(p0, "w").write("payload\n")
        os.mkdir(os.path.join(tmp, "plaindir"))
        await asyncio.wait_for(connector().copy_remote_to_remote(src=p0, dst=os.path.join(tmp, "c0.txt"), locations=[loc], source_location=loc), 20)
        await asyncio.wait_for(connector().copy_local_to_remote(src=p0, dst=os.path.join(tmp, "plaindir"), locations=[loc]), 20)
        await asyncio.wait_for(connector().copy_remote_to_local(src=p0, dst=os.path.join(tmp, "f0.txt"), location=loc), 20)
        control = all(os.path.isfile(os.path.join(tmp, x)) for x in ("c0.txt", "plaindir/plain0.txt", "f0.txt"))
        print("control (plain names, same three routes):", "all copied" if control else "FAILED - environment problem, results below are not meaningful")
        if not control:
            return 0
        # A -------------------------------------------------------------------------------------
        src = os.path.join(tmp, "my file.txt")
        open(src, "w").write("payload\n")
        dst = os.path.join(tmp, "copy.txt")
        await asyncio.wait_for(connector().copy_remote_to_remote(src=src, dst=dst, locations=[loc], source_location=loc, read_only=False), 20)
        ok = os.path.isfile(dst) and open(dst).read() == "payload\n"
        print("A same-connector copy of 'my file.txt':", "copied" if ok else "NOT copied (and no error raised)")
        bad += not ok
        # B -------------------------------------------------------------------------------------
        plain = os.path.join(tmp, "plain.txt")
        open(plain, "w").write("payload\n")
        qdir = os.path.join(tmp, 'q"uote')
        os.mkdir(qdir)
        try:
            await asyncio.wait_for(connector().copy_local_to_remote(src=plain, dst=qdir, locations=[loc]), 8)
            ok = os.path.isfile(os.path.join(qdir, "plain.txt"))
            print("B local->remote into directory 'q\"uote':", "copied" if ok else "NOT copied")
        except asyncio.TimeoutError:
            ok = False
            print("B local->remote into directory 'q\"uote': HUNG (no answer within 8 s: the shell waits for the closing quote)")
        except Exception as e:  # noqa: BLE001
            ok = False
            print("B local->remote into directory 'q\"uote': raised", type(e).__name__, str(e).strip()[:80])
        bad += not ok
        # C -------------------------------------------------------------------------------------
        ddir = os.path.join(tmp, "d$x")
        os.mkdir(ddir)
        try:
            await asyncio.wait_for(connector().copy_local_to_remote(src=plain, dst=ddir, locations=[loc]), 20)
        except Exception as e:  # noqa: BLE001
            print("C raised", type(e).__name__, str(e)[:80])
        ok = os.path.isfile(os.path.join(ddir, "plain.txt"))
        print("C local->remote into existing directory 'd$x':", "file placed inside it" if ok else "directory NOT recognised (`$x` expanded by the shell)")
        bad += not ok
        # D -------------------------------------------------------------------------------------
        out = os.path.join(tmp, "fetched.txt")
        try:
            await asyncio.wait_for(connector().copy_remote_to_local(src=src, dst=out, location=loc), 20)
        except Exception as e:  # noqa: BLE001
            print("D raised", type(e).__name__, str(e)[:80])
        ok = os.path.isfile(out) and open(out).read() == "payload\n"
        print("D remote->local of 'my file.txt':", "fetched" if ok else "NOT fetched (tar received two names)")
        bad += not ok
    if bad:
        print(f"DEFECT: {bad} of 4 transfers with blanks / quotes / $ in the name did not reproduce the source")
        return 1
    print("no defect observed")
    return 0


rc = asyncio.run(main())
sys.stdout.flush()
os._exit(rc)  # leftover `sh` children of the hung scenario must not keep the interpreter alive
