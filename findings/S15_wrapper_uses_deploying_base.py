"""S15 (C26): a wrapper deployment must not be deployed on top of a wrapped deployment that is still deploying.
Two concurrent requests for wrappers w1, w2 of the same (eager, slow) base: the second request finds `base` in
deployments_map (it is published before `await connector.deploy()`), skips the wait on the deployment event and
deploys its wrapper while base.deploy() is still running.
Run: cd /repo && /venv/bin/python /verif/findings/S15_wrapper_uses_deploying_base.py ; exit 1 = wrapper deployed too early."""
import asyncio, sys

from streamflow.core.deployment import DeploymentConfig, WrapsConfig
from streamflow.deployment import manager as mgr
from streamflow.deployment.connector import connector_classes
from streamflow.deployment.connector.local import LocalConnector
from streamflow.deployment.wrapper import ConnectorWrapper

LOG = []
STATE = {"base_ready": False}


class SlowBase(LocalConnector):
    async def deploy(self, external):
        LOG.append("base.deploy start")
        await asyncio.sleep(0.3)
        STATE["base_ready"] = True
        LOG.append("base.deploy end")


class Wrap(ConnectorWrapper):
    def __init__(self, deployment_name, config_dir, connector, service=None, **kw):
        super().__init__(deployment_name, config_dir, connector, service, 2**16)

    async def deploy(self, external):
        LOG.append(f"{self.deployment_name}.deploy (base ready: {STATE['base_ready']})")
        if not STATE["base_ready"]:
            STATE.setdefault("early", []).append(self.deployment_name)

    async def undeploy(self, external): ...
    @classmethod
    def get_schema(cls):
        return ""


connector_classes["slowbase"] = SlowBase
connector_classes["wrap"] = Wrap


class Ctx:
    config = {"path": "/tmp/x.yml", "deployments": {"base": {"type": "slowbase", "config": {}, "lazy": False, "scheduling_policy": None}}}


async def main():
    m = mgr.DefaultDeploymentManager(Ctx())
    cfg = lambda n: DeploymentConfig(name=n, type="wrap", config={}, wraps=WrapsConfig(deployment="base"), lazy=False)
    await asyncio.gather(m.deploy(cfg("w1")), m.deploy(cfg("w2")))
    print("\n".join(LOG))
    early = STATE.get("early", [])
    print("wrappers deployed before the wrapped deployment was ready:", early)
    return 1 if early else 0

sys.exit(asyncio.run(main()))
