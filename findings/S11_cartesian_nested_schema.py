"""S11 (C02.R5): CartesianProductCombinator cannot hold a nested combinator.

Tree: Cartesian(depth=1)[ Dot[a, b], c ]  -- a legal combinator tree of depth 2 (C02's quantifier:
"all combinator trees up to depth 2").  The inner dot product yields *schemas* (dicts
port -> {"token", "input_ids"}); Combinator._add_to_list discriminates them with
isinstance(token, MutableMapping), but CartesianProductCombinator._add_to_port / _product read
`.tag` / `.retag` / `.persistent_id` from the stored values without that discrimination.

Run:  cd /repo && /venv/bin/python /verif/findings/S11_cartesian_nested_schema.py
Expected on the defective tree: two AttributeError lines and exit status 1.
"""
import asyncio
import sys
import traceback

from streamflow.core.workflow import Token
from streamflow.workflow.combinator import CartesianProductCombinator, DotProductCombinator


def build():
    outer = CartesianProductCombinator(name="outer", workflow=None, depth=1)
    inner = DotProductCombinator(name="inner", workflow=None)
    inner.add_item("a")
    inner.add_item("b")
    outer.add_combinator(inner, {"a", "b"})
    outer.add_item("c")
    return outer


def tok(value, tag):
    t = Token(value=value, tag=tag)
    t.persistent_id = hash((value, tag)) % 10_000
    return t


async def feed(outer, arrivals):
    out = []
    for port, token in arrivals:
        async for schema in outer.combine(port, token):
            out.append({k: (v["token"].tag, v["token"].value) for k, v in schema.items()})
    return out


async def main() -> int:
    failures = 0
    # (1) the first complete inner pair while `c` is already there: _product dereferences the inner schema entries
    try:
        res = await feed(build(), [("c", tok("c0", "0.0")), ("a", tok("a0", "0.0")), ("b", tok("b0", "0.0"))])
        print("schedule 1 emitted", res)
    except AttributeError:
        failures += 1
        print("schedule 1 (c, a, b): " + traceback.format_exc().strip().splitlines()[-1])
    # (2) a second inner pair under the same outer key: _add_to_port compares `.tag` of the stored schema
    try:
        res = await feed(
            build(),
            [("a", tok("a0", "0.0")), ("b", tok("b0", "0.0")), ("a", tok("a1", "0.1")), ("b", tok("b1", "0.1"))],
        )
        print("schedule 2 emitted", res)
    except AttributeError:
        failures += 1
        print("schedule 2 (a0, b0, a1, b1): " + traceback.format_exc().strip().splitlines()[-1])
    print(f"{failures} of 2 schedules raise AttributeError (expected 0 for a correct nested cartesian product)")
    return 1 if failures else 0


if __name__ == "__main__":
    sys.exit(asyncio.run(main()))
