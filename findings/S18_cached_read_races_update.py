"""S18 (C09): a cached read that is in flight while the same row is updated re-populates the cache with the old row.
`get_step` suspends between issuing the SELECT and storing its result in `step_cache` (the store is done by the
`@cached` wrapper after the coroutine returns); `update_step` issues the UPDATE and pops `step_cache[id]` while the
read is still suspended (nothing to pop yet), then the read stores the row it selected before the UPDATE.  Every later
`get_step(id)` on this instance returns the stale row although the database holds the new one, until the next update.
Run: cd /repo && /venv/bin/python /verif/findings/S18_cached_read_races_update.py ; exit 1 = stale row served."""
import asyncio, sys

from streamflow.core.workflow import Status, Step, Workflow
from streamflow.persistence.sqlite import SqliteDatabase


class Ctx:
    config = {"path": "/tmp/streamflow.yml"}


async def main():
    db = SqliteDatabase(Ctx(), ":memory:")
    wid = await db.add_workflow("w", {"config": {}}, 0, Workflow)
    bad = []
    for kind in ("step", "port"):
        for trial in range(20):
            if kind == "step":
                rid = await db.add_step(f"/s{trial}", wid, 0, Step, {})
                get, upd, col, new = db.get_step, db.update_step, "status", 5
            else:
                from streamflow.core.workflow import Port
                rid = await db.add_port(f"p{trial}", wid, Port, {})
                get, upd, col, new = db.get_port, db.update_port, "name", f"renamed{trial}"
            # the row is not cached yet: the read and the update overlap
            await asyncio.gather(get(rid), upd(rid, {col: new}))
            row = await get(rid)  # served from the cache
            fresh = SqliteDatabase.__dict__  # noqa: F841  (documentation: a second instance on the same file would read `new`)
            async with db.connection as conn:
                async with conn.execute(f"SELECT {col} FROM {kind} WHERE id = :id", {"id": rid}) as cur:
                    stored = (await cur.fetchone())[0]
            if row[col] != stored:
                bad.append((kind, rid, row[col], stored))
    await db.close()
    for kind, rid, got, stored in bad[:6]:
        print(f"{kind} {rid}: get_{kind} returns {col if False else ''}{got!r} but the database holds {stored!r}")
    print(f"{len(bad)} of 40 overlapped read/update pairs left a stale row in the cache")
    return 1 if bad else 0

sys.exit(asyncio.run(main()))
