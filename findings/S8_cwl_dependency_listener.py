"""S8 (C31): CWLDependencyListener misses inputs an expression reads, or crashes on valid JavaScript.

Each case is a CWL JavaScript expression body that evaluates successfully with `inputs = {foo: .., a: ..}`;
`expected` is the set of fields of `inputs` it reads.  The property wants  expected <= computed  and no failure.

Run: cd /repo && /venv/bin/python /verif/findings/S8_cwl_dependency_listener.py
exit 1 = at least one case loses a dependency or raises (defect present).
Rule instances (python -m sfverif keys C31):
  R2 handler:enterVariableDeclaration      -> case 1      R2 handler:enterParenthesizedExpression -> case 2
  R1 accessor:literal@SingleExpression...  -> cases 3, 4  R2 handler:computed-key-fallback        -> cases 3, 4
  R1 optional:_get_index:deref             -> case 5
  R3 delete_name:raises-for-outer-scope    -> cases 6, 7  R3 alias-vs-shadow:same-operation       -> case 8
"""
import io
import sys
from contextlib import redirect_stderr

from streamflow.cwl.utils import resolve_dependencies

ALL = "<any field>"
CASES = [
    ("1 alias through a var initialiser", "${var x = inputs; return x.foo;}", {"foo"}),
    ("2 parenthesised receiver", "$((inputs).foo)", {"foo"}),
    ("3 computed key held in a variable", "${var k = 'foo'; return inputs[k];}", {ALL}),
    ("4 computed key expression", "$(inputs['fo' + 'o'])", {ALL}),
    ("5 numeric index", "${return inputs[0];}", set()),
    ("6 assignment to a tracked name inside an (uncalled) function", "${function f(){ inputs = y; } return inputs.a;}", {"a"}),
    ("7 alias re-assigned inside an (uncalled) function", "${var x; x = inputs; function f(){ x = q; } return x.a;}", {"a"}),
    ("8 alias created inside a function body", "${function f(){ var y; y = inputs; return y.foo; } return f();}", {"foo"}),
    # controls that work today
    ("c1 dot and quoted index", "$(inputs.a + inputs['foo'])", {"a", "foo"}),
    ("c2 alias by plain assignment", "${var x; x = inputs; return x.foo;}", {"foo"}),
]

bad = 0
for name, expr, expected in CASES:
    err = io.StringIO()
    try:
        with redirect_stderr(err):  # antlr prints recoverable syntax notes here
            got = resolve_dependencies(expr, full_js=True)
        if ALL in expected:
            ok = False  # nothing short of "all inputs" is a superset; today the analysis raises before that
            verdict = f"computed {sorted(got)} but any field may be read"
        else:
            ok = expected <= got
            verdict = f"computed {sorted(got)}, reads {sorted(expected)}"
    except Exception as e:  # noqa: BLE001
        ok = False
        verdict = f"analysis failed: {type(e).__name__}: {e}"
    control = name.startswith("c")
    print(("ok   " if ok else "LOST ") + f"{name:62s} {expr:70s} {verdict}")
    if not ok:
        bad += 1
    if control and not ok:
        print("  (a control failed: the script no longer matches the code)")
sys.exit(1 if bad else 0)
