"""S3 (C25): after a command times out in the persistent shell, the shell must not be reused:
the old command's output and end marker are still in the pipe and are returned as the output
of the next command.  Run: cd /repo && /venv/bin/python /verif/findings/S3_shell_timeout_stale_output.py
exit 0 = the next command gets its own output (or the shell was closed); exit 1 = stale output."""
import asyncio, sys
from streamflow.core.exception import WorkflowExecutionException
from streamflow.deployment.connector.base import SubprocessShell


async def main():
    proc = await asyncio.create_subprocess_exec(
        "sh", stdin=asyncio.subprocess.PIPE, stdout=asyncio.subprocess.PIPE, stderr=asyncio.subprocess.DEVNULL)
    sh = SubprocessShell(command=["sh"], buffer_size=65536, process=proc)
    try:
        await sh.execute(["sleep 1; echo OLD"], capture_output=True, timeout=0.2)
        print("no timeout?")
    except WorkflowExecutionException as e:
        print("first command:", e)
    await asyncio.sleep(1.2)
    if await sh.closed():
        print("shell closed after the timeout: cannot return stale output")
        return 0
    out, rc = await sh.execute(["echo NEW"], capture_output=True, timeout=5)
    print("second command output:", repr(out))
    await sh.close()
    return 0 if out == "NEW" else 1

sys.exit(asyncio.run(main()))
