"""S5a/S5b (C23): tar-stream extraction must be exact or fail, however the stream is chunked.
  a) 100-byte chunks: every member must be extracted (S5a: SeekableStreamReaderWrapper.seek ignored short reads)
  b) stream truncated inside the data of a file: extraction must raise (S5b: a partial file was accepted / the copy hung)
Run: cd /repo && /venv/bin/python /verif/findings/S5_tar_stream_chunking_truncation.py ; exit 1 = defect reproduced."""
import asyncio, io, os, sys, tarfile, tempfile

from streamflow.core.data import StreamWrapper
from streamflow.deployment import aiotarstream
from streamflow.deployment.connector.base import extract_tar_stream


class Chunked(StreamWrapper):
    def __init__(self, data: bytes, chunk: int):
        super().__init__(io.BytesIO(data))
        self.chunk = chunk
    async def close(self): ...
    async def read(self, size=None):
        return self.stream.read(min(size, self.chunk) if size is not None else self.chunk)
    async def write(self, data): raise NotImplementedError


def make_tar(tmp):
    src = os.path.join(tmp, "src")
    os.makedirs(os.path.join(src, "sub"))
    files = {"a.bin": os.urandom(700), "sub/b.bin": os.urandom(1500), "c.txt": b"hello\n"}
    for n, d in files.items():
        open(os.path.join(src, n), "wb").write(d)
    buf = io.BytesIO()
    with tarfile.open(fileobj=buf, mode="w", format=tarfile.GNU_FORMAT) as t:
        t.add(src, arcname="src")
    return buf.getvalue(), files


async def extract(data, chunk, dst):
    async with aiotarstream.open(stream=Chunked(data, chunk), mode="r") as tar:
        await extract_tar_stream(tar, "src", dst, 65536)


async def main():
    bad = 0
    with tempfile.TemporaryDirectory() as tmp:
        data, files = make_tar(tmp)
        for chunk in (65536, 512, 100, 7):
            dst = os.path.join(tmp, f"out{chunk}")
            os.mkdir(dst)
            try:
                await asyncio.wait_for(extract(data, chunk, dst), 20)
                got = {n: open(os.path.join(dst, n), "rb").read() if os.path.exists(os.path.join(dst, n)) else None for n in files}
                ok = got == files
                print(f"chunk {chunk:6d}: {'exact' if ok else 'WRONG: ' + str({n: (None if v is None else len(v)) for n, v in got.items()})}")
            except Exception as e:
                ok = False
                print(f"chunk {chunk:6d}: raised {type(e).__name__}: {e}")
            bad += 0 if ok else 1
        # truncation inside the data of sub/b.bin (a single plain file archive to hit the file branch)
        one = io.BytesIO()
        p = os.path.join(tmp, "big.bin")
        open(p, "wb").write(os.urandom(5000))
        with tarfile.open(fileobj=one, mode="w", format=tarfile.GNU_FORMAT) as t:
            t.add(p, arcname="big.bin")
        cut = one.getvalue()[: 512 + 2000]
        dst = os.path.join(tmp, "outcut")
        os.mkdir(dst)
        try:
            async with aiotarstream.open(stream=Chunked(cut, 300), mode="r") as tar:
                await asyncio.wait_for(extract_tar_stream(tar, "big.bin", os.path.join(dst, "big.bin"), 65536), 10)
            size = os.path.getsize(os.path.join(dst, "big.bin")) if os.path.exists(os.path.join(dst, "big.bin")) else None
            print(f"truncated stream: NO ERROR, file of {size} bytes accepted (expected 5000)")
            bad += 1
        except asyncio.TimeoutError:
            print("truncated stream: HUNG (copy loop never ends on EOF)")
            bad += 1
        except Exception as e:
            print(f"truncated stream: raised {type(e).__name__}: {e}  (ok)")
    return 1 if bad else 0

sys.exit(asyncio.run(main()))
