"""S2 (C25/C30): environment values and the working directory must reach the process verbatim.
Run: cd /repo && /venv/bin/python /verif/findings/S2_create_command_env_quoting.py ; exit 1 = value altered."""
import subprocess, sys, tempfile, os
from streamflow.core.utils import create_command

val = 'a"b $HOME `echo x` \\n'
d = tempfile.mkdtemp(prefix="sp ace")
cmd = create_command("X", ["printf", "'%s|%s'", '"$V"', '"$PWD"'], environment={"V": val}, workdir=d)
out = subprocess.run(["sh", "-c", cmd], capture_output=True, text=True)
os.rmdir(d)
got = out.stdout
print("command:", cmd)
print("got:", repr(got), "stderr:", out.stderr.strip()[:200])
ok = got == f"{val}|{os.path.realpath(d)}" or got == f"{val}|{d}"
sys.exit(0 if ok else 1)
