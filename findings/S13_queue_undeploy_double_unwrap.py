"""S13 (C27.R5): QueueManagerConnector.undeploy unwraps every registered location with
get_inner_location() and hands the *inner* location to _remove_jobs(); _remove_jobs() (Slurm, PBS, Flux)
goes through super().run(location=...), whose non-batch branch applies get_inner_location() again.
With the usual one-level stacking (queue manager -> ssh) the second unwrap raises
`Location ... does not wrap any inner location`: undeploy fails and no queued job is cancelled.

Run:  cd /repo && /venv/bin/python /verif/findings/S13_queue_undeploy_double_unwrap.py
Exit 1 = defect reproduced, 0 = the queued job was cancelled.

No docker/ssh: the real SlurmConnector wraps a fake inner connector that interprets
sbatch / squeue / scancel / scontrol in memory.  One job is submitted and still running when undeploy is called.
"""
import asyncio
import sys

from streamflow.core.deployment import Connector, ExecutionLocation
from streamflow.deployment.connector.queue_manager import SlurmConnector


class FakeCluster(Connector):
    """In-memory queue manager behind the wrapped connector."""

    def __init__(self):
        super().__init__(deployment_name="inner", config_dir="/tmp", transferBufferSize=1024)
        self.next_id = 1
        self.queue: dict[str, str] = {}  # id -> state
        self.cancelled: list[str] = []
        self.sbatch_latency = [0.05, 0.15]

    async def run(self, location, command, environment=None, workdir=None, stdin=None, stdout=None, stderr=None,
                  capture_output=False, timeout=None, job_name=None):
        words = [str(w) for w in command]
        if "sbatch" in words:
            await asyncio.sleep(self.sbatch_latency.pop(0))
            jid = str(self.next_id)
            self.next_id += 1
            self.queue[jid] = "RUNNING"
            return jid + "\n", 0
        if words[0] == "squeue":
            await asyncio.sleep(0.01)
            asked = words[words.index("-j") + 1].split(",")
            return "\n".join(j for j in asked if self.queue.get(j) == "RUNNING") + "\n", 0
        if words[0] == "scancel":
            await asyncio.sleep(0.10)
            for j in " ".join(words[1:]).split():
                self.cancelled.append(j)
                self.queue[j] = "CANCELLED"
            return "", 0
        if words[0] == "scontrol":
            return ("0\n" if "ExitCode" in words[-1] else "\n"), 0
        return "", 0

    # unused abstract API
    async def copy_local_to_remote(self, *a, **k): ...
    async def copy_remote_to_local(self, *a, **k): ...
    async def copy_remote_to_remote(self, *a, **k): ...
    async def deploy(self, external): ...
    async def undeploy(self, external): ...
    async def get_available_locations(self, service=None): return {}
    async def get_stream_reader(self, *a, **k): ...
    async def get_stream_writer(self, *a, **k): ...
    async def get_shell(self, *a, **k): ...
    @classmethod
    def get_schema(cls): return ""


async def main() -> int:
    cluster = FakeCluster()
    slurm = SlurmConnector(deployment_name="slurm", config_dir="/tmp", connector=cluster, service=None,
                           maxConcurrentJobs=4, pollingInterval=0.02)
    inner = ExecutionLocation(name="login", deployment="inner", hostname="h")
    # exactly what QueueManagerConnector.get_available_locations builds: the slurm location wraps the ssh one
    loc = ExecutionLocation(name="login/slurmctld", deployment="slurm", hostname="h", wraps=inner)

    async def submit(name):
        try:
            return await slurm.run(location=loc, command=["sleep", "100"], job_name=name)
        except BaseException as e:  # noqa: BLE001
            return f"{type(e).__name__}: {e}"

    j1 = asyncio.create_task(submit("job-1"))
    await asyncio.sleep(0.2)  # job 1 is submitted and being polled
    print(f"queued before undeploy: {sorted(j for j, s in cluster.queue.items() if s == 'RUNNING')}  _scheduled_jobs={list(slurm._scheduled_jobs)}")
    err = None
    try:
        await slurm.undeploy(external=False)
    except Exception as e:  # noqa: BLE001
        err = e
    still = sorted(j for j, s in cluster.queue.items() if s == "RUNNING")
    print(f"undeploy raised: {type(err).__name__ + ': ' + str(err) if err else None}")
    print(f"cancelled by undeploy: {cluster.cancelled}; still in the queue: {still}")
    j1.cancel()
    if err is not None or still:
        print("DEFECT: undeploy did not cancel the job that was still queued")
        return 1
    return 0


sys.exit(asyncio.run(main()))
